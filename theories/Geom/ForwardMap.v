(** ForwardMap: coordinates.forward_map_molecule over the generic carrier (model; NO proofs).

      for cg_node in cg_mol.nodes:
          weights = nx.get_node_attributes(cg_mol.nodes[cg_node]['graph'], "weight")
          cg_pos = np.zeros(3)
          for aa_node, weight in weights.items():
              cg_pos += aa_mol.nodes[aa_node]['position']*weight
          cg_pos = cg_pos / <len(weights) | sum(weights.values())>      (GENERATED: fm_avg_mode)
          cg_mol.nodes[cg_node]['position'] = cg_pos

    [pos] is the look-up aa_mol.nodes[k]['position'] (KeyError when the node or the attribute is
    missing); [ws] is the weights dict of one bead in iteration order. *)
From Coq Require Import List ZArith Bool.
From CGV Require Import Base.PyBase Geom.Num Gen.GeomGen.
Import ListNotations.

Section ForwardMap.
  Context {M : Type} (o : numops M).
  Notation vec := (@vec3 M).

  Fixpoint accumulate (pos : Z -> res vec) (ws : list (Z * M)) (acc : vec) : res vec :=
    match ws with
    | [] => Ok acc
    | (a, w) :: r => p <- pos a ;; accumulate pos r (v3add o acc (v3scale o p w))
    end.

  (** Python's sum(weights.values()): left fold from 0 *)
  Fixpoint sum_from (ws : list (Z * M)) (s : M) : M :=
    match ws with [] => s | (_, w) :: r => sum_from r (nadd o s w) end.
  Definition sum_weights (ws : list (Z * M)) : M := sum_from ws (nzero o).

  Definition denom (mode : avg_mode) (ws : list (Z * M)) : M :=
    match mode with DivByLen => nofnat o (length ws) | DivBySum => sum_weights ws end.

  Definition bead (mode : avg_mode) (pos : Z -> res vec) (ws : list (Z * M)) : res vec :=
    s <- accumulate pos ws (v3zero o) ;; Ok (v3div o s (denom mode ws)).

  Fixpoint forward_map (mode : avg_mode) (pos : Z -> res vec) (beads : list (Z * list (Z * M)))
    : res (list (Z * vec)) :=
    match beads with
    | [] => Ok []
    | (b, ws) :: r => p <- bead mode pos ws ;; q <- forward_map mode pos r ;; Ok ((b, p) :: q)
    end.

  (** positions as an association list (what the harness records) *)
  Fixpoint alookup {A} (k : Z) (l : list (Z * A)) : res A :=
    match l with [] => Err EKey | (k', v) :: r => if Z.eqb k k' then Ok v else alookup k r end.
End ForwardMap.

(** the model of the code as it is NOW *)
Definition forward_map_now {M} (o : numops M) := forward_map o fm_avg_mode.
