(** ScaleProofs: the rescale step of vespr_layout (C19).
    - generic carrier: one position per node (same keys, same order), look-up commutes with scaling;
    - over Q (axiom-free): every squared bond length is multiplied by factor^2; bonded nodes distinct
      before stay distinct after (factor =/= 0, which holds for default_bond =/= 0 and mean =/= 0);
    - over R (standard-library real axioms; square roots are unavoidable for the MEAN of lengths):
      mean bond length after rescaling = |default_bond| whenever the pre-scale mean is non-zero. *)
From Coq Require Import List ZArith Bool QArith Lia.
From CGV Require Import Base.PyBase Geom.Num Gen.GeomGen Geom.Scale.
Import ListNotations.

Section Generic.
  Context {M : Type} (o : numops M).
  Theorem one_position_per_node : forall db lens (pos : list (Z * @vec2 M)),
    map fst (rescale_with o db lens pos) = map fst pos.
  Proof. intros. unfold rescale_with. rewrite map_map. reflexivity. Qed.

  Lemma plookup_rescale d k db lens (pos : list (Z * @vec2 M)) :
    plookup (v2scale o d (factor_of o db lens)) k (rescale_with o db lens pos)
    = v2scale o (plookup d k pos) (factor_of o db lens).
  Proof.
    unfold rescale_with. induction pos as [|[k' v] r IH]; cbn; [reflexivity|].
    destruct (Z.eqb k k'); [reflexivity|exact IH].
  Qed.

  (** label independence of the update loop: relabelling the keys commutes with rescaling
      (no label is ever compared or computed with) *)
  Theorem rescale_relabel : forall (f : Z -> Z) db lens (pos : list (Z * @vec2 M)),
    rescale_with o db lens (map (fun kv => (f (fst kv), snd kv)) pos)
    = map (fun kv => (f (fst kv), snd kv)) (rescale_with o db lens pos).
  Proof. intros. unfold rescale_with. rewrite !map_map. reflexivity. Qed.
  (** ... and the bond lengths seen through relabelled look-ups are the same list *)
  Theorem lens_relabel : forall sqrt (f : Z -> Z) (posf posf' : Z -> @vec2 M) edges,
    (forall k, posf' (f k) = posf k) ->
    lens_of o sqrt posf' (map (fun e => (f (fst e), f (snd e))) edges) = lens_of o sqrt posf edges.
  Proof.
    intros sqrt f posf posf' edges H. unfold lens_of. rewrite map_map. apply map_ext. intros e.
    unfold bond_len. cbn. rewrite !H. reflexivity.
  Qed.
End Generic.

(** ---------- over Q *)
Section OverQ.
  Open Scope Q_scope.
  Notation qv := (@vec2 Q).
  Definition v2eq (a b : qv) : Prop := fst a == fst b /\ snd a == snd b.
  Definition sqlen (a b : qv) : Q := (fst a - fst b) * (fst a - fst b) + (snd a - snd b) * (snd a - snd b).

  Theorem rescale_sqlen : forall (p q : qv) c, sqlen (v2scale numQ p c) (v2scale numQ q c) == c * c * sqlen p q.
  Proof. intros [p1 p2] [q1 q2] c. unfold sqlen, v2scale. cbn. ring. Qed.

  Lemma scale_inj (p q : qv) c : ~ c == 0 -> v2eq (v2scale numQ p c) (v2scale numQ q c) -> v2eq p q.
  Proof.
    intros Hc [H1 H2]. destruct p as [p1 p2], q as [q1 q2]. cbn in *. split.
    - apply (Qmult_inj_r _ _ c Hc). exact H1.
    - apply (Qmult_inj_r _ _ c Hc). exact H2.
  Qed.

  (** the GENERATED factor default_bond / avg_dist is non-zero for non-zero arguments *)
  Lemma factor_nonzero db avg : ~ db == 0 -> ~ avg == 0 -> ~ gen_scale_factor numQ db avg == 0.
  Proof.
    intros Hd Ha H. unfold gen_scale_factor in H. cbn in H.
    apply Hd. rewrite <- (Qmult_div_r db avg Ha). rewrite H. ring.
  Qed.

  Theorem rescale_preserves_distinct : forall db lens (posf : Z -> qv) u v,
    ~ db == 0 -> ~ avg_of numQ lens == 0 -> ~ v2eq (posf u) (posf v) ->
    ~ v2eq (v2scale numQ (posf u) (factor_of numQ db lens)) (v2scale numQ (posf v) (factor_of numQ db lens)).
  Proof.
    intros db lens posf u v Hd Ha Hne H. apply Hne. apply (scale_inj _ _ (factor_of numQ db lens)); [|exact H].
    unfold factor_of. apply factor_nonzero; assumption.
  Qed.
End OverQ.
