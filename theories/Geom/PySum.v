(** PySum: CPython 3.12's builtin sum() on a list of ints and floats, and forward_map_molecule with it (model; NO proofs).

    Python/bltinmodule.c, builtin_sum_impl (start = 0, an int):
      - while the items are exact ints they are added as integers (i_result);
      - the first other item is added by the generic PyNumber_Add: (float) i_result + x, plain;
      - from then on (the running result is a float) a FLOAT item goes through Neumaier's compensated step
            t = f + x;  c += fabs(f) >= fabs(x) ? (f - t) + x : (x - t) + f;  f = t
        an INT item is added plainly (f += (double) value);
      - at the end  if (c && isfinite(c)) f += c.
    An item is (value, is_int).  Integer additions use the carrier's addition (exact in binary64 for the small weights that
    occur).  The comparisons are the record [cmpops] (PrimFloat for the executable instance; irrelevant over Q, where the
    compensation term is always 0 - Geom/PySumProofs.v). *)
From Coq Require Import List ZArith Bool PrimFloat.
From CGV Require Import Base.PyBase Geom.Num Gen.GeomGen Geom.ForwardMap.
Import ListNotations.

Record cmpops (M : Type) := {
  abs_ge : M -> M -> bool;          (* fabs(a) >= fabs(b) *)
  comp_usable : M -> bool           (* c && isfinite(c) *)
}.
Arguments abs_ge {M}. Arguments comp_usable {M}.

Definition cmpF : cmpops float :=
  {| abs_ge := fun a b => PrimFloat.leb (PrimFloat.abs b) (PrimFloat.abs a);
     comp_usable := fun c => negb (PrimFloat.eqb c 0%float) && PrimFloat.ltb (PrimFloat.abs c) infinity |}.

Section PySum.
  Context {M : Type} (o : numops M) (c : cmpops M).
  Notation vec := (@vec3 M).

  Fixpoint float_loop (xs : list (M * bool)) (f comp : M) : M :=
    match xs with
    | [] => if comp_usable c comp then nadd o f comp else f
    | (x, true) :: r => float_loop r (nadd o f x) comp
    | (x, false) :: r =>
        let t := nadd o f x in
        let comp' := if abs_ge c f x then nadd o comp (nadd o (nsub o f t) x) else nadd o comp (nadd o (nsub o x t) f) in
        float_loop r t comp'
    end.
  Fixpoint int_loop (xs : list (M * bool)) (i : M) : M :=
    match xs with
    | [] => i
    | (x, true) :: r => int_loop r (nadd o i x)
    | (x, false) :: r => float_loop r (nadd o i x) (nzero o)
    end.
  Definition py_sum (xs : list (M * bool)) : M := int_loop xs (nzero o).

  (** forward_map_molecule with this sum; a weights dict is a list of (atom, (weight, is_int)) *)
  Definition strip (ws : list (Z * (M * bool))) : list (Z * M) := map (fun aw => (fst aw, fst (snd aw))) ws.
  Definition denom_py (mode : avg_mode) (ws : list (Z * (M * bool))) : M :=
    match mode with DivByLen => nofnat o (length ws) | DivBySum => py_sum (map snd ws) end.
  Definition bead_py (mode : avg_mode) (pos : Z -> res vec) (ws : list (Z * (M * bool))) : res vec :=
    s <- accumulate o pos (strip ws) (v3zero o) ;; Ok (v3div o s (denom_py mode ws)).
  Fixpoint forward_map_py (mode : avg_mode) (pos : Z -> res vec) (beads : list (Z * list (Z * (M * bool))))
    : res (list (Z * vec)) :=
    match beads with
    | [] => Ok []
    | (b, ws) :: r => p <- bead_py mode pos ws ;; q <- forward_map_py mode pos r ;; Ok ((b, p) :: q)
    end.
End PySum.

(** attach the is_int flags recorded by the harness to the weights (missing flag = float) *)
Fixpoint tag_ws {M} (ws : list (Z * M)) (ints : list bool) : list (Z * (M * bool)) :=
  match ws with
  | [] => []
  | (a, w) :: r => (a, (w, match ints with i :: _ => i | [] => false end)) :: tag_ws r (tl ints)
  end.
Fixpoint tag_beads {M} (beads : list (Z * list (Z * M))) (ints : list (list bool)) : list (Z * list (Z * (M * bool))) :=
  match beads with
  | [] => []
  | (b, ws) :: r => (b, tag_ws ws (match ints with i :: _ => i | [] => [] end)) :: tag_beads r (tl ints)
  end.
