(** CoordProofs: C18 as it stands for the CURRENT code.  Each status is a function of the fact
    generated from the source (write-back shape, averaging denominator, boundness of the name);
    it is proved for EVERY value of the fact, so whichever shape tools/gen_geom.py reads from /repo,
    the matching theorem applies (partial + refuted for the defective shape, full for the repaired). *)
From Coq Require Import List ZArith Bool QArith.
From CGV Require Import Base.PyBase Geom.Num Gen.GeomGen Geom.IndexMap Geom.ForwardMap Geom.CoordDefs
     Geom.IndexMapProofs Geom.ForwardMapProofs.
Import ListNotations.

Definition embed_status (mode : write_mode) : Prop :=
  match mode with
  | WriteByEnumIndex =>
      (* partial: outside the class "node list is not 0..n-1 in order" *)
      (forall nodes, NoDup nodes -> cls_index_not_key nodes = false ->
         exists m, embed_model WriteByEnumIndex nodes (length nodes) = Ok m /\ on_own_atoms nodes m)
      (* inside the class the clause fails for every node list *)
      /\ (forall nodes, NoDup nodes -> cls_index_not_key nodes = true ->
            ~ exists m, embed_model WriteByEnumIndex nodes (length nodes) = Ok m /\ on_own_atoms nodes m)
      (* refuted: concrete witness (a resolved two-fragment molecule) *)
      /\ (exists nodes, NoDup nodes /\ cls_index_not_key nodes = true /\
            exists m, embed_model WriteByEnumIndex nodes (length nodes) = Ok m /\ on_own_atoms_b nodes m = false)
  | WriteByNodeKey =>
      forall nodes nrd, NoDup nodes -> (length nodes <= nrd)%nat ->
        exists m, embed_model WriteByNodeKey nodes nrd = Ok m /\ on_own_atoms nodes m
  end.
Lemma embed_status_all : forall mode, embed_status mode.
Proof.
  intros [|]; cbn.
  - split; [exact coords_partial_enum|]. split; [exact coords_class_fails_enum|].
    destruct coords_refuted_enum as [nodes [ND H]]. exists nodes. split; [exact ND|]. split; [|exact H].
    destruct (cls_index_not_key nodes) eqn:E; [reflexivity|].
    destruct (coords_partial_enum nodes ND E) as [m [Hm Hown]]. destruct H as [m' [Hm' Hb]].
    rewrite Hm in Hm'. inversion Hm'; subst m'. apply (on_own_atoms_b_spec nodes m ND) in Hown. congruence.
  - exact coords_on_own_atom_nodekey.
Qed.

Definition fwd_status (mode : avg_mode) : Prop :=
  match mode with
  | DivByLen =>
      (forall ws, ws <> [] -> (equivariant DivByLen ws <-> sum_weights numQ ws == inject_Z (Z.of_nat (length ws))))
      /\ (forall ws, ws <> [] -> (forall aw, In aw ws -> snd aw == 1) -> equivariant DivByLen ws)
      /\ (exists ws, ws <> [] /\ ~ equivariant DivByLen ws)
  | DivBySum => forall ws, ~ sum_weights numQ ws == 0 -> equivariant DivBySum ws
  end.
Lemma fwd_status_all : forall mode, fwd_status mode.
Proof.
  intros [|]; cbn.
  - split; [exact forward_map_translation_len|]. split; [exact forward_map_unit_weights|exact forward_map_refuted_len].
  - exact forward_map_translation_sum.
Qed.

Definition r2n_status (arg_bound : bool) : Prop :=
  if arg_bound
  then forall has_conf natoms,
         r2n_positions true has_conf natoms = Ok (if has_conf then map (fun i => (Z.of_nat i, i)) (seq 0 natoms) else [])
  else (forall natoms, natoms <> 0%nat -> r2n_flow false true natoms = Err EName)      (* refuted for every molecule with a conformer *)
       /\ (forall natoms, r2n_positions false false natoms = Ok []).                   (* partial: no conformer *)
Lemma r2n_status_all : forall b, r2n_status b.
Proof.
  intros [|]; cbn.
  - exact r2n_bound_positions.
  - split; [exact r2n_unbound_is_nameerror|exact (r2n_no_conformer_ok false)].
Qed.
