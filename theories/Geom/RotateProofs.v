(** RotateProofs: rotate_subgraph preserves every bond length (C19).
    Hypotheses (stated, not hidden): the rotation of one call is an ISOMETRY for the distance
    [dist] that FIXES its origin (numpy's sin/cos rotation about points[anchor]; validated by
    execution), and the recorded connected_components transcript satisfies [comp_contract]
    (checked on every recorded transcript in Geom/LayoutCheck.v). *)
From Coq Require Import List ZArith Bool Lia.
From CGV Require Import Base.PyBase Geom.IndexMap Geom.Rotate.
Import ListNotations.
Open Scope Z_scope.

Section RotateProofs.
  Context {P D : Type} (dist : P -> P -> D) (rot : P -> P -> P).
  Hypothesis rot_isometry : forall o p q, dist (rot o p) (rot o q) = dist p q.
  Hypothesis rot_fixes_origin : forall o, rot o o = o.

  Lemma same_edge_cases e a b : same_edge e a b = true -> (fst e = a /\ snd e = b) \/ (fst e = b /\ snd e = a).
  Proof.
    unfold same_edge. rewrite orb_true_iff, !andb_true_iff, !Z.eqb_eq. tauto.
  Qed.

  Theorem rotate_preserves_bonds : forall edges anchor target comps (points : Z -> P) c points',
    rotate_subgraph rot edges anchor target comps points = Ok (c, points') ->
    comp_contract edges anchor target c = true ->
    forall e, In e edges -> dist (points' (fst e)) (points' (snd e)) = dist (points (fst e)) (points (snd e)).
  Proof.
    intros edges anchor target comps points c points' Hrun Hc e He.
    unfold rotate_subgraph in Hrun. destruct (negb (has_edge edges anchor target)); [discriminate|].
    destruct (pick_component target comps) as [c0|] eqn:Ep; cbn in Hrun; [|discriminate].
    inversion Hrun; subst c0 points'. clear Hrun.
    unfold comp_contract in Hc. apply andb_true_iff in Hc. destruct Hc as [Ht Hcl].
    destruct (same_edge e anchor target) eqn:Es.
    - (* the removed edge: the target rotates; the anchor is the fixed origin whether or not it rotates *)
      apply same_edge_cases in Es.
      assert (Ha : (if zmem anchor c then rot (points anchor) (points anchor) else points anchor)
                   = rot (points anchor) (points anchor))
        by (destruct (zmem anchor c); [reflexivity|symmetry; apply rot_fixes_origin]).
      destruct Es as [[-> ->]|[-> ->]]; rewrite Ht, Ha; apply rot_isometry.
    - (* a remaining edge: both ends rotate or neither does *)
      assert (Hr : In e (remaining edges anchor target)).
      { unfold remaining. apply filter_In. split; [exact He|]. rewrite Es. reflexivity. }
      unfold closed_under in Hcl. rewrite forallb_forall in Hcl. specialize (Hcl e Hr).
      apply eqb_prop in Hcl. rewrite Hcl. destruct (zmem (snd e) c); [apply rot_isometry|reflexivity].
  Qed.

  (** nodes outside the picked component do not move *)
  Theorem rotate_moves_only_component : forall edges anchor target comps (points : Z -> P) c points' k,
    rotate_subgraph rot edges anchor target comps points = Ok (c, points') -> zmem k c = false -> points' k = points k.
  Proof.
    intros edges anchor target comps points c points' k Hrun Hk. unfold rotate_subgraph in Hrun.
    destruct (negb (has_edge edges anchor target)); [discriminate|].
    destruct (pick_component target comps) as [c0|]; cbn in Hrun; [|discriminate].
    inversion Hrun; subst. rewrite Hk. reflexivity.
  Qed.

  (** the component that is picked contains the target (this half of the contract is proved) *)
  Lemma pick_component_has_target target comps c : pick_component target comps = Ok c -> zmem target c = true.
  Proof.
    induction comps as [|x r IH]; cbn; [discriminate|]. destruct (zmem target x) eqn:E; [|exact IH].
    intros H; inversion H; subst. exact E.
  Qed.
End RotateProofs.

(** non-vacuity: a chain 0-1-2-3, rotating the part behind the edge 1-2 about node 1
    (reflection of the integer line about the origin is an isometry of |p-q| fixing it) *)
Example rotate_nonvacuous :
  let edges := [(0, 1); (1, 2); (2, 3)] in
  let comps := [[0; 1]; [2; 3]] in
  let rot := fun o p : Z => 2 * o - p in
  exists c pts', rotate_subgraph rot edges 1 2 comps (fun k => 10 * k) = Ok (c, pts') /\
                 comp_contract edges 1 2 c = true /\ c = [2; 3] /\ pts' 3 = -10 /\ pts' 0 = 0.
Proof. cbn. eexists. eexists. split; [reflexivity|]. repeat split. Qed.
