(** LayoutCheck: executable oracle of property C19 ([prop_fail], on the IMPLEMENTATION's output)
    and correspondence of Geom/Scale.v, Geom/Rotate.v with it ([corr_ok]).
    Imports only models and definitions (never a proof file). *)
From Coq Require Import List ZArith Bool PrimFloat.
From CGV Require Import Base.PyBase Geom.Num Gen.GeomGen Geom.IndexMap Geom.Scale Geom.Rotate Geom.CisTrans Geom.Tail Geom.Layouts.
Import ListNotations.
Open Scope Z_scope.

Definition fnan (x : float) : bool := negb (PrimFloat.eqb x x).
Definition feqb (a b : float) : bool := PrimFloat.eqb a b || (fnan a && fnan b).
Definition fabs (x : float) : float := PrimFloat.abs x.
Definition ffinite (x : float) : bool := PrimFloat.ltb (fabs x) infinity.
Definition fvec2 := (float * float)%type.
Definition v2eqb (a b : fvec2) : bool := feqb (fst a) (fst b) && feqb (snd a) (snd b).
(** within one unit in the last place *)
Definition ulp1 (a b : float) : bool := feqb a b || feqb (next_up a) b || feqb (next_down a) b.
Definition rel9 : float := 0x1.12e0be826d695p-30%float.     (* 1e-9 *)

Fixpoint pos_eqb (a b : list (Z * fvec2)) : bool :=
  match a, b with
  | [], [] => true
  | (k, p) :: a', (l, q) :: b' => Z.eqb k l && v2eqb p q && pos_eqb a' b'
  | _, _ => false
  end.
Fixpoint lens_ok (model obs : list float) : bool :=
  match model, obs with
  | [], [] => true
  | x :: a, y :: b => ulp1 x y && lens_ok a b
  | _, _ => false
  end.

Definition fzero2 : fvec2 := (0%float, 0%float).
Definition posf (l : list (Z * fvec2)) : Z -> fvec2 := fun k => plookup fzero2 k l.
Definition flen (l : list (Z * fvec2)) (e : Z * Z) : float := bond_len numF PrimFloat.sqrt (posf l) e.

(** exception codes: 0 none, 1 predicted by the model, 2 other, 3 malformed result *)
Inductive case :=
| CLayout (nodes : list Z) (edges : list (Z * Z))       (* graph.nodes / graph.edges order; labels encoded injectively *)
          (db : float)                                  (* default_bond *)
          (exc : nat)
          (pre : list (Z * fvec2))                      (* positions returned by check_and_fix_cis_trans (dict order) *)
          (al : option (float * float))                 (* align_with given: (np.cos angle, np.sin angle) of the recorded
                                                           linalg_functions.rotate call (transcript); None otherwise *)
          (ain mid : list (Z * fvec2))                  (* rows handed to / returned by rotate_to_axis on the keys of the
                                                           dict, in dict order (both [] when align_with is None) *)
          (lens : list float)                           (* np.linalg.norm results of the rescale loop (transcript) *)
          (post : list (Z * fvec2))                     (* what vespr_layout returned (dict order) *)
| CRot (edges : list (Z * Z)) (anchor target : Z)
       (comps : list (list Z))                          (* nx.connected_components transcript (yield order) *)
       (exc : nat)
       (pre post : list (Z * fvec2))
| CFix (edges : list (Z * Z)) (items : list ezitem)   (* flattened ez_isomer items, dict order; lt14 = Python's n1 < n4 *)
       (closes : list bool)                          (* np.isclose results, call order (transcript) *)
       (comps_tr : list (list (list Z)))             (* nx.connected_components results, one per rotate_subgraph call *)
       (exc : nat)
       (calls : list (Z * Z * Z))                    (* recorded rotate_subgraph calls: anchor, target, angle *)
       (pre post : list (Z * fvec2))
| CRefined (nodes : list Z) (edges : list (Z * Z))
           (exc : nat)                                  (* 0 none, 4 raised inside vespr_layout/_force_minimize, 2 other, 3 malformed *)
           (vkeys : list Z)                             (* key order of the dict the last vespr_layout call returned *)
           (opt : res (list fvec2))                     (* rows the last _force_minimize call returned / it raised *)
           (al : option (float * float)) (ain mid : list fvec2)   (* rotate_to_axis: cos/sin, rows in, rows out *)
           (post : list (Z * fvec2))
| CCirc (nodes : list Z) (edges : list (Z * Z))
        (al : option (float * float))                   (* align_with given (cos/sin when rotate was reached, else NaN) *)
        (exc : nat)                                     (* 0 none, 1 UnboundLocalError, 2 other, 3 malformed *)
        (coords : list fvec2)                           (* _generate_circle_coordinates result *)
        (cyc : list (Z * Z))                            (* nx.find_cycle result *)
        (post : list (Z * fvec2))
| CSkip.

Definition call_contract_b (edges : list (Z * Z)) (c : call) : bool :=
  let '(a, t, _, comp) := c in comp_contract edges a t comp.
Fixpoint calls_eqb (a : list call) (b : list (Z * Z * Z)) : bool :=
  match a, b with
  | [], [] => true
  | (x, y, z, _) :: a', (x', y', z') :: b' => Z.eqb x x' && Z.eqb y y' && Z.eqb z z' && calls_eqb a' b'
  | _, _ => false
  end.

(** the alignment: contract of the cos/sin transcript (c*c + s*s = 1 up to 1e-12) and agreement of the float instance
    of the GENERATED rotation with numpy's np.dot (BLAS; not bit for bit) up to 1e-12 * (1 + |x| + |y|) *)
Definition rel12 : float := 0x1.19799812dea11p-40%float.    (* 1e-12 *)
Definition al_contract_b (al : option (float * float)) : bool :=
  match al with
  | None => true
  | Some (c, s) => PrimFloat.leb (fabs (c * c + s * s - 1)) rel12
  end%float.
Fixpoint pos_close (pre model obs : list (Z * fvec2)) : bool :=
  match pre, model, obs with
  | [], [], [] => true
  | (_, p) :: pre', (k, m) :: model', (l, q) :: obs' =>
      let tol := (rel12 * (1 + fabs (fst p) + fabs (snd p)))%float in
      Z.eqb k l && PrimFloat.leb (fabs (fst m - fst q)) tol && PrimFloat.leb (fabs (snd m - snd q)) tol
      && pos_close pre' model' obs'
  | _, _, _ => false
  end.

(** the steps of the GENERATED tail, followed on the recorded values: the current dict [cur] starts as [pre];
    TAlign (align_with given): the rows handed to rotate_to_axis are the values of [cur] in dict order ([ain]), the
    generated rotation of them agrees with the rows that came back ([mid], which become the current dict);
    TRescale: norm transcript within its contract on [cur], then the float rescale, bit for bit. *)
Fixpoint rows_eqb (a b : list fvec2) : bool :=
  match a, b with
  | [], [] => true
  | p :: a', q :: b' => v2eqb p q && rows_eqb a' b'
  | _, _ => false
  end.
Definition rows_close (pre model obs : list fvec2) : bool :=
  let z := map (fun p => (0, p)) in pos_close (z pre) (z model) (z obs).

Definition corr_step (edges : list (Z * Z)) (db : float) (al : option (float * float)) (ain mid : list (Z * fvec2))
           (lens : list float) (acc : bool * list (Z * fvec2)) (st : tail_step) : bool * list (Z * fvec2) :=
  let '(ok, cur) := acc in
  match st with
  | TAlign => match al with
              | None => (ok, cur)
              | Some _ => (ok && pos_eqb cur ain && pos_close cur (align_step numF al cur) mid, mid)
              end
  | TRescale => (ok && lens_ok (lens_of numF PrimFloat.sqrt (posf cur) edges) lens, rescale_with numF db lens cur)
  end.

Definition corr_ok (c : case) : bool :=
  match c with
  | CLayout nodes edges db exc pre al ain mid lens post =>
      Nat.eqb exc 0 &&
      tail_ok gen_vespr_tail && Nat.leb (length (filter (fun st => negb (is_rescale st)) gen_vespr_tail)) 1 &&
      al_contract_b al &&
      let '(ok, cur) := fold_left (corr_step edges db al ain mid lens) gen_vespr_tail (true, pre) in
      ok && pos_eqb cur post
  | CRot edges anchor target comps exc pre post =>
      match rotate_subgraph (fun _ p => p) edges anchor target comps (posf pre) with
      | Ok (comp, _) => Nat.eqb exc 0 && comp_contract edges anchor target comp &&
                        forallb (fun kp => zmem (fst kp) comp || v2eqb (snd kp) (posf post (fst kp))) pre &&
                        Nat.eqb (length pre) (length post)
      | Err ELookup => Nat.eqb exc 1
      | Err _ => false
      end
  | CFix edges items closes comps_tr exc calls pre post =>
      match check_and_fix_cis_trans (fun _ _ _ _ p => p) edges items closes comps_tr (posf pre) with
      | Ok (_, trace) =>
          Nat.eqb exc 0 && calls_eqb trace calls && forallb (call_contract_b edges) trace &&
          (* a node that is in no rotated component keeps its position bit for bit *)
          forallb (fun kp => existsb (fun c => zmem (fst kp) (snd c)) trace || v2eqb (snd kp) (posf post (fst kp))) pre &&
          Nat.eqb (length pre) (length post)
      | Err ELookup => Nat.eqb exc 1
      | Err _ => false
      end
  | CRefined nodes edges exc vkeys opt al ain mid post =>
      match opt with
      | Err _ => Nat.eqb exc 4
      | Ok rows =>
          Nat.eqb exc 0 && al_contract_b al &&
          match al with
          | None => true
          | Some _ => rows_eqb rows ain && rows_close rows (align_rows numF al rows) mid
          end &&
          match refined_layout numF None nodes (Ok (match al with None => rows | Some _ => mid end)) with
          | Ok pos => pos_eqb pos post
          | Err _ => false
          end
      end
  | CCirc nodes edges al exc coords cyc post =>
      match circular_layout numF al coords (Ok cyc) with
      | Ok pos => Nat.eqb exc 0 &&
                  match circ_align, al with
                  | CircAlignApplied, Some _ => pos_close pos pos post      (* numpy's np.dot: not bit for bit *)
                  | _, _ => pos_eqb pos post
                  end
      | Err EUnbound => Nat.eqb exc 1
      | Err _ => false
      end
  | CSkip => true
  end.

Definition coincide (l : list (Z * fvec2)) (e : Z * Z) : bool :=
  PrimFloat.eqb (fst (posf l (fst e))) (fst (posf l (snd e))) && PrimFloat.eqb (snd (posf l (fst e))) (snd (posf l (snd e))).
Definition has_key (k : Z) (l : list (Z * fvec2)) : bool := existsb (fun kp => Z.eqb k (fst kp)) l.

Definition prop_fail (c : case) : nat :=
  match c with
  | CLayout nodes edges db exc pre _ _ _ lens post =>
      if Nat.eqb exc 3 then 2%nat
      else if negb (Nat.eqb exc 0) then 1%nat
      else if negb (Nat.eqb (length post) (length nodes) && forallb (fun k => has_key k post) nodes) then 2%nat
      else if negb (forallb (fun kp => ffinite (fst (snd kp)) && ffinite (snd (snd kp))) post) then 3%nat
      else if existsb (coincide post) edges then 4%nat
      else let m := mean_bond numF PrimFloat.sqrt (posf post) edges in
           if negb (PrimFloat.leb (fabs (m - db)) (rel9 * fabs db))%float then 5%nat
           else 0%nat
  | CRot edges anchor target comps exc pre post =>
      if negb (Nat.eqb exc 0) then 6%nat
      else if negb (forallb (fun kp => ffinite (fst (snd kp)) && ffinite (snd (snd kp))) post) then 7%nat
      else if negb (forallb (fun e => let a := flen pre e in let b := flen post e in
                                      PrimFloat.leb (fabs (a - b)) (rel9 * (1 + a)))%float edges) then 8%nat
      else 0%nat
  | CFix edges _ _ _ exc _ pre post =>
      if negb (Nat.eqb exc 0) then 6%nat
      else if negb (forallb (fun kp => ffinite (fst (snd kp)) && ffinite (snd (snd kp))) post) then 7%nat
      else if negb (forallb (fun e => let a := flen pre e in let b := flen post e in
                                      PrimFloat.leb (fabs (a - b)) (rel9 * (1 + a)))%float edges) then 8%nat
      else 0%nat
  | CRefined nodes edges exc vkeys opt al ain mid post =>
      (* an exception raised inside vespr_layout / the force minimisation (scipy driving the pseudo-energy terms) is not
         judged: C19's statement is about vespr_layout; here only the write-back of a COMPLETED optimisation is *)
      if Nat.eqb exc 4 then 0%nat
      else if Nat.eqb exc 3 then 2%nat
      else if negb (Nat.eqb exc 0) then 1%nat
      else if negb (Nat.eqb (length post) (length nodes) && forallb (fun k => has_key k post) nodes) then 2%nat
      else if negb (forallb (fun kp => ffinite (fst (snd kp)) && ffinite (snd (snd kp))) post) then 3%nat
      else if existsb (coincide post) edges then 4%nat
      else (* every node received the row the optimiser computed for IT: row j belongs to the j-th key of the dict
              that vespr_layout returned *)
           let final := match al, opt with Some _, _ => mid | None, Ok rows => rows | None, Err _ => [] end in
           if negb (Nat.eqb (length vkeys) (length final) &&
                    forallb (fun kr => v2eqb (posf post (fst kr)) (snd kr)) (combine vkeys final)) then 9%nat
           else 0%nat
  | CCirc nodes edges al exc coords cyc post =>
      if Nat.eqb exc 3 then 2%nat
      (* the UnboundLocalError that the model predicts for align_with (generated fact circ_align) is a correspondence
         item, not a clause of C19 (circular_layout has no default_bond: outside the statement) *)
      else if Nat.eqb exc 1 && (match al with Some _ => true | None => false end) then 0%nat
      else if negb (Nat.eqb exc 0) then 10%nat
      else if negb (Nat.eqb (length post) (length nodes) && forallb (fun k => has_key k post) nodes) then 2%nat
      else if negb (forallb (fun kp => ffinite (fst (snd kp)) && ffinite (snd (snd kp))) post) then 3%nat
      else if existsb (coincide post) edges then 4%nat
      else 0%nat
  | CSkip => 0%nat
  end.
