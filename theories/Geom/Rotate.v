(** Rotate: graph_layout_utils.rotate_subgraph (model; NO proofs).

      graph_copy = nx.subgraph(graph, graph.nodes).copy()
      graph_copy.remove_edge(anchor, target)                  (NetworkXError when absent)
      connected_comps = nx.connected_components(graph_copy)   (third party: TRANSCRIPT [comps])
      target_nodes = next(connected_comps)
      while target_nodes:
          if target in target_nodes: break
          target_nodes = next(connected_comps)                (StopIteration when exhausted)
      ... new_points = rotate_degrees(target_points, rotate_angle, origin=points[anchor])
      for point, node in zip(new_points, target_nodes): points[node] = point

    The rotation of one call is an abstract map [rot origin p] (numpy sin/cos are third party);
    the theorems assume only that it is an isometry fixing the origin.  The transcript of
    connected_components enters with the decidable contract [comp_contract]. *)
From Coq Require Import List ZArith Bool.
From CGV Require Import Base.PyBase Geom.IndexMap.
Import ListNotations.
Open Scope Z_scope.

Definition same_edge (e : Z * Z) (a b : Z) : bool :=
  (Z.eqb (fst e) a && Z.eqb (snd e) b) || (Z.eqb (fst e) b && Z.eqb (snd e) a).
Definition has_edge (edges : list (Z * Z)) (a b : Z) : bool := existsb (fun e => same_edge e a b) edges.
Definition remaining (edges : list (Z * Z)) (a b : Z) : list (Z * Z) :=
  filter (fun e => negb (same_edge e a b)) edges.

Fixpoint pick_component (target : Z) (comps : list (list Z)) : res (list Z) :=
  match comps with
  | [] => Err EStopIter
  | c :: r => if zmem target c then Ok c else pick_component target r
  end.

(** contract of the connected_components transcript, for the component that is picked:
    it contains the target and no remaining edge leaves it *)
Definition closed_under (c : list Z) (edges : list (Z * Z)) : bool :=
  forallb (fun e => Bool.eqb (zmem (fst e) c) (zmem (snd e) c)) edges.
Definition comp_contract (edges : list (Z * Z)) (anchor target : Z) (c : list Z) : bool :=
  zmem target c && closed_under c (remaining edges anchor target).

Section Rotate.
  Context {P : Type} (rot : P -> P -> P).
  Definition rotate_subgraph (edges : list (Z * Z)) (anchor target : Z) (comps : list (list Z))
             (points : Z -> P) : res (list Z * (Z -> P)) :=
    if negb (has_edge edges anchor target) then Err ELookup
    else c <- pick_component target comps ;;
         Ok (c, fun k => if zmem k c then rot (points anchor) (points k) else points k).
End Rotate.
