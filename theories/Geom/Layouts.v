(** Layouts: the two other entries of graph_layout.LAYOUT_METHODS (models; NO proofs).

    vespr_refined_layout(graph, default_bond, align_with, ...):
      atom_to_idx = OrderedDict(zip(list(graph.nodes), range(0, len(graph.nodes))))
      while ...: pos = vespr_layout(graph, default_bond)                      (dict; key order = TRANSCRIPT [vkeys])
                 pos, energy = _force_minimize(graph, pos, ...)               (scipy L-BFGS: TRANSCRIPT [rows]; row i
                                                                               belongs to the i-th KEY of that dict)
      pos_aligned = rotate_to_axis(pos, align_with) if align_with is not None else pos
      positions = {}
      for node_key, idx in atom_to_idx.items(): positions[node_key] = pos_aligned[idx]
      return positions
    The statements are pinned by tools/gen_geom.refined_facts (fail closed).

    circular_layout(graph, radius, align_with):
      positions = _generate_circle_coordinates(radius=radius, num_points=len(graph))     (numpy: TRANSCRIPT [coords])
      if align_with is not None: pos_aligned = rotate_to_axis(pos, align_with)           (GENERATED [circ_align])
      pos = {}
      for idx, (node, _) in enumerate(nx.find_cycle(graph, source=start)): pos[node] = positions[idx]
                                                                                         (networkx: TRANSCRIPT [cyc])
      return pos *)
From Coq Require Import List ZArith Bool.
From CGV Require Import Base.PyBase Geom.Num Gen.GeomGen Geom.Scale Geom.Tail.
Import ListNotations.

(** Python dict assignment: an existing key keeps its place *)
Fixpoint dset {A} (k : Z) (v : A) (l : list (Z * A)) : list (Z * A) :=
  match l with
  | [] => [(k, v)]
  | (k', v') :: r => if Z.eqb k k' then (k, v) :: r else (k', v') :: dset k v r
  end.

Definition res_map {A B} (g : A -> B) (r : res A) : res B := match r with Ok a => Ok (g a) | Err e => Err e end.

Section Layouts.
  Context {M : Type} (o : numops M).
  Notation vec := (@vec2 M).

  Definition align_rows (al : option (M * M)) (rows : list vec) : list vec :=
    match al with None => rows | Some cs => map (rot_cs o cs) rows end.

  (** the write-back loop over atom_to_idx.items(): graph.nodes are distinct, so idx = position in graph.nodes *)
  Fixpoint write_rows (nodes : list Z) (idx : nat) (rows : list vec) (acc : list (Z * vec)) : res (list (Z * vec)) :=
    match nodes with
    | [] => Ok acc
    | k :: r => match nth_error rows idx with
                | None => Err EIndex
                | Some v => write_rows r (Datatypes.S idx) rows (dset k v acc)
                end
    end.
  Definition refined_layout (al : option (M * M)) (nodes : list Z) (opt : res (list vec)) : res (list (Z * vec)) :=
    rows <- opt ;; write_rows nodes 0 (align_rows al rows) [].

  (** circular_layout *)
  Fixpoint write_cycle (cyc : list (Z * Z)) (idx : nat) (coords : list vec) (acc : list (Z * vec)) : res (list (Z * vec)) :=
    match cyc with
    | [] => Ok acc
    | (k, _) :: r => match nth_error coords idx with
                     | None => Err EIndex
                     | Some v => write_cycle r (Datatypes.S idx) coords (dset k v acc)
                     end
    end.
  Definition circular_layout_with (mode : circ_align_mode) (al : option (M * M)) (coords : list vec)
             (cyc : res (list (Z * Z))) : res (list (Z * vec)) :=
    match mode, al with
    | CircAlignUnbound, Some _ => Err EUnbound
    | CircAlignApplied, Some _ => c <- cyc ;; write_cycle c 0 (align_rows al coords) []
    | _, _ => c <- cyc ;; write_cycle c 0 coords []
    end.
  Definition circular_layout := circular_layout_with circ_align.
End Layouts.
