(** BeadTie: C18's bead theorems stated about the graphs the RESOLVER returns (imports the C02 / C09
    models and theorems, never changes them).

    forward_map_molecule reads, for coarse node k, `nx.get_node_attributes(cg.nodes[k]['graph'], 'weight')`.
    - the keys of that dict are fine nodes whose `fragid` records k (C02: frag_exact / step_frag_exact), so the
      bead of k depends only on the positions of k's own atoms and is translation-equivariant;
    - every hydrogen that rebuild_h_atoms adds to an atom carries that atom's weight (C09: rebuild_end_to_end with
      "weight" in copy_attrs), so an annotation `[X;w=..]` weighs X's hydrogens too.
    [wq] is the numeric reading of a weight value (pyval -> carrier); nothing is assumed about it. *)
From Coq Require Import String.
From Coq Require Import List Ascii ZArith Bool QArith.
From CGV Require Import Base.PyBase Base.PyVal Base.NxGraph Resolve.Bonding Resolve.GraphOps Resolve.Pipeline
     Resolve.MapDefs Resolve.MapProofs Resolve.CopyProofs Resolve.PipelineFull Resolve.FragidProofs
     Gen.HydroGen Hydro.Hydrogens Hydro.HydroDefs Hydro.HydrogensProofs Hydro.RebuildProofs
     Geom.Num Gen.GeomGen Geom.ForwardMap Geom.ForwardMapProofs.
Import ListNotations.
Open Scope Z_scope.

Section BeadTie.
  Context {M : Type} (o : numops M) (wq : pyval -> M).

  (** the weights dict forward_map_molecule builds from a fragment graph, in node order *)
  Definition graph_weights (g : graph) : list (Z * M) :=
    map (fun kv => (fst kv, wq (snd kv))) (get_node_attributes g (S "weight")).

  Lemma get_node_attributes_keys g a x : In x (map fst (get_node_attributes g a)) -> In x (node_keys g).
  Proof.
    unfold get_node_attributes, node_keys. induction g as [|n r IH]; cbn; [tauto|].
    rewrite map_app, in_app_iff. intros [H|H]; [|right; apply IH; exact H].
    destruct (aget a (na n)); cbn in H; [|tauto]. destruct H as [H|[]]. left. exact H.
  Qed.
  Lemma graph_weights_keys g x : In x (map fst (graph_weights g)) -> In x (node_keys g).
  Proof.
    unfold graph_weights. rewrite map_map. cbn. apply get_node_attributes_keys.
  Qed.

  (** annotate_fragments level (any coarse graph, any fine graph): the atoms entering bead k record k *)
  Theorem bead_atoms_record_bead : forall meta mol fgs k g, annotate_fragments meta mol = Ok fgs -> In (k, g) fgs ->
    forall a, In a (map fst (graph_weights g)) -> records mol a k.
  Proof.
    intros meta mol fgs k g Ha Hin a Hk. apply (frag_exact meta mol fgs Ha k g Hin). apply graph_weights_keys. exact Hk.
  Qed.

  (** ... hence the bead depends only on the positions of the atoms that record k *)
  Theorem bead_of_fragment_own_atoms : forall meta mol fgs k g mode (pos pos' : Z -> res (@vec3 M)),
    annotate_fragments meta mol = Ok fgs -> In (k, g) fgs ->
    (forall a, records mol a k -> pos a = pos' a) ->
    bead o mode pos (graph_weights g) = bead o mode pos' (graph_weights g).
  Proof.
    intros meta mol fgs k g mode pos pos' Ha Hin H. apply bead_uses_own_atoms. intros a Hk. apply H.
    exact (bead_atoms_record_bead meta mol fgs k g Ha Hin a Hk).
  Qed.

  (** the same for the coarse graphs RETURNED by a whole resolve step (after atom naming) *)
  Theorem bead_of_resolved_own_atoms : forall legacy aa fd prev car fo k g mode (pos pos' : Z -> res (@vec3 M)),
    wf_dict fd -> wf_attrs fd -> resolve_step_full legacy aa fd prev car = Ok fo -> In (k, g) (fo_fgs fo) ->
    (forall a, records (fo_m6 fo) a k -> pos a = pos' a) ->
    bead o mode pos (graph_weights g) = bead o mode pos' (graph_weights g).
  Proof.
    intros legacy aa fd prev car fo k g mode pos pos' Wd Wa Hr Hin H. apply bead_uses_own_atoms. intros a Hk. apply H.
    exact (proj1 (step_frag_exact legacy aa fd prev car fo k g Wd Wa Hr Hin a (graph_weights_keys g a Hk))).
  Qed.
End BeadTie.

(** translation equivariance of the bead of a returned coarse node (over Q, current denominator) *)
Theorem bead_of_resolved_translation : forall (wq : pyval -> Q) legacy aa fd prev car fo k g,
  wf_dict fd -> wf_attrs fd -> resolve_step_full legacy aa fd prev car = Ok fo -> In (k, g) (fo_fgs fo) ->
  ~ (sum_weights numQ (graph_weights wq g) == 0)%Q -> equivariant DivBySum (graph_weights wq g).
Proof. intros. apply forward_map_translation_sum. assumption. Qed.

(** C09: every hydrogen rebuild_h_atoms adds to a non-hydrogen atom carries that atom's weight *)
Theorem added_hydrogens_inherit_weight : forall ca g1 g',
  NoDup (node_keys g1) -> closed_g g1 -> noself_g g1 -> (forall i n, gfind i g1 = Some n -> no_rs n) ->
  rebuild_after_car false ca g1 = Ok g' -> str_in (S "weight") ca = true ->
  forall k n, gfind k g1 = Some n -> is_H (na n) = false ->
    exists idxs n', gfind k g' = Some n' /\ nadj n' = nadj n ++ map (fun j => (j, h_edge_attrs)) idxs /\
      aget (S "weight") (na n') = aget (S "weight") (na n) /\
      forall j, In j idxs -> exists h, gfind j g' = Some h /\ nadj h = [(k, h_edge_attrs)] /\ is_H (na h) = true /\
                                       aget (S "weight") (na h) = Some (getd (S "weight") (na n') VNone).
Proof.
  intros ca g1 g' ND Hc Hs Hrs Hrun Hw k n Hk HnH.
  destruct (rebuild_end_to_end ca g1 g' ND Hc Hs Hrs Hrun) as [H1 _].
  destruct (H1 k n Hk HnH) as [val [b [idxs [n' [_ [_ [_ [_ [_ [Hk' [Hadj [Hattr Hh]]]]]]]]]]]].
  exists idxs, n'. split; [exact Hk'|]. split; [exact Hadj|]. split; [apply Hattr; discriminate|].
  intros j Hj. destruct (Hh j Hj) as [h [Hg [Hn [HH Hadd]]]]. exists h. repeat split; try assumption.
  specialize (Hadd (S "weight")). rewrite Hw in Hadd. exact Hadd.
Qed.
(** "weight" is in the default copy_attrs GENERATED from pysmiles_utils.py *)
Lemma weight_in_default_copy_attrs : str_in (S "weight") rebuild_copy_attrs_default = true.
Proof. reflexivity. Qed.

(** ---------- the fragment graph carries the molecule's attributes (so: the molecule's weights) *)
From CGV Require Import Hydro.GraphLemmas Compose.GraphFacts Dialect.CopyAnnot.

Lemma gfind_app_new k g n : gfind k (g ++ [n]) = match gfind k g with Some m => Some m | None => if Z.eqb (nk n) k then Some n else None end.
Proof. induction g as [|x r IH]; cbn; [reflexivity|]. destruct (Z.eqb (nk x) k); [reflexivity|exact IH]. Qed.

Lemma has_node_in g k : has_node g k = true <-> In k (node_keys g).
Proof.
  unfold has_node, node_keys. induction g as [|n r IH]; cbn; [split; [discriminate|tauto]|].
  destruct (Z.eqb_spec (nk n) k); [split; auto|]. rewrite IH. split; [auto|intros [H|H]; [congruence|exact H]].
Qed.

Definition attrs_nodup (mol : graph) : Prop := forall n, In n mol -> NoDup (map fst (na n)).
Lemma gfind_in k g n : gfind k g = Some n -> In n g /\ nk n = k.
Proof.
  induction g as [|x r IH]; cbn; [discriminate|]. destruct (Z.eqb_spec (nk x) k).
  - intros H; inversion H; subst. auto.
  - intros H. destruct (IH H). auto.
Qed.

(** invariant of the node stage: every node so far carries (up to look-up) the molecule's attributes *)
Definition same_as (mol acc : graph) : Prop :=
  forall k n, gfind k acc = Some n -> exists m, gfind k mol = Some m /\ forall key, aget key (na n) = aget key (na m).

Lemma node_stage_same mol ns : attrs_nodup mol -> forall acc g1, same_as mol acc ->
  GraphOps.fold_res (fun acc n => a <- node_attrs mol n ;; Ok (add_node acc n a)) ns acc = Ok g1 -> same_as mol g1.
Proof.
  intros Hnd. induction ns as [|x r IH]; cbn; intros acc g1 Hs H; [inversion H; subst; exact Hs|].
  unfold node_attrs in H at 1. destruct (gfind x mol) as [mx|] eqn:Ex; cbn in H; [|discriminate].
  apply (IH _ _ ) in H; [exact H|]. clear H IH.
  intros k n Hk. unfold add_node in Hk. destruct (has_node acc x) eqn:Eh.
  - rewrite gfind_gupdate in Hk by reflexivity. destruct (Z.eqb_spec k x) as [->|Hne]; [|apply Hs; exact Hk].
    destruct (gfind x acc) as [old|] eqn:Eo; cbn in Hk; [|discriminate]. inversion Hk; subst n. cbn.
    destruct (Hs x old Eo) as [m [Hm Hsame]]. rewrite Ex in Hm. inversion Hm; subst m.
    exists mx. split; [exact Ex|]. intros key. rewrite aget_aupdate.
    rewrite aget_rev_nodup by (apply Hnd; apply (gfind_in x mol mx Ex)).
    destruct (aget key (na mx)) eqn:E; [reflexivity|]. rewrite Hsame. exact E.
  - rewrite gfind_app_new in Hk. destruct (gfind k acc) as [m0|] eqn:E0.
    + inversion Hk; subst. apply Hs. exact E0.
    + cbn in Hk. destruct (Z.eqb_spec x k) as [->|Hne]; [|discriminate]. inversion Hk; subst n. cbn.
      exists mx. split; [exact Ex|reflexivity].
Qed.

Lemma edge_stage_attrs mol (ps : list (Z * Z)) k : forall g, has_node g k = true ->
  node_attrs (fold_left (fun acc ab => if has_edge mol (fst ab) (snd ab) then add_edge acc (fst ab) (snd ab) [] else acc) ps g) k
  = node_attrs g k.
Proof.
  induction ps as [|[a b] r IH]; cbn; intros g H; [reflexivity|].
  destruct (has_edge mol a b).
  - rewrite IH by (apply has_node_add_edge_mono; exact H). apply attrs_add_edge_existing. exact H.
  - apply IH. exact H.
Qed.

Theorem frag_subgraph_attrs : forall mol ns g, attrs_nodup mol -> frag_subgraph mol ns = Ok g ->
  forall k, In k ns -> exists n m, gfind k g = Some n /\ gfind k mol = Some m /\ forall key, aget key (na n) = aget key (na m).
Proof.
  intros mol ns g Hnd H k Hk. unfold frag_subgraph in H.
  destruct (GraphOps.fold_res _ ns gempty) as [g1|] eqn:E; cbn in H; [|discriminate]. inversion H; subst g. clear H.
  assert (Hs : same_as mol g1) by (apply (node_stage_same mol ns Hnd gempty g1); [intros ? ? X; discriminate X|exact E]).
  assert (Hin : has_node g1 k = true) by (apply has_node_in; apply (subgraph_nodes mol ns gempty g1 E); right; exact Hk).
  pose proof (edge_stage_attrs mol (pairs ns) k g1 Hin) as Ha. unfold node_attrs in Ha.
  unfold has_node in Hin. destruct (gfind k g1) as [n1|] eqn:E1; [|discriminate].
  destruct (gfind k (fold_left _ (pairs ns) g1)) as [n|] eqn:E2; [|discriminate]. inversion Ha as [Hna].
  destruct (Hs k n1 E1) as [m [Hm Hsame]]. exists n, m. split; [reflexivity|]. split; [exact Hm|].
  intros key. rewrite Hna. apply Hsame.
Qed.

(** the weight a fragment graph shows for an atom is the weight the molecule shows for it *)
Theorem fragment_weight_is_molecule_weight : forall meta mol fgs k g, attrs_nodup mol ->
  annotate_fragments meta mol = Ok fgs -> In (k, g) fgs ->
  forall a, In a (node_keys g) -> node_get g a (S "weight") = node_get mol a (S "weight").
Proof.
  intros meta mol fgs k g Hnd Ha Hin a Hk. unfold annotate_fragments in Ha.
  destruct (fragid_map mol) as [fm|] eqn:Ef; cbn in Ha; [|discriminate].
  destruct (map_res_in _ _ _ _ Ha Hin) as [mn [_ Hmn]].
  destruct (frag_subgraph mol (members_of fm (nk mn))) as [g0|] eqn:Eg; cbn in Hmn; [|discriminate].
  inversion Hmn; subst. assert (Hm : In a (members_of fm (nk mn))) by (apply (frag_subgraph_nodes mol _ g Eg); exact Hk).
  destruct (frag_subgraph_attrs mol _ g Hnd Eg a Hm) as [n [m [Hn [Hm' Hsame]]]].
  unfold node_get. rewrite Hn, Hm'. apply Hsame.
Qed.
