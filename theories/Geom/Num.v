(** Num: the GENERIC numeric carrier of the geometry models (DESIGN 2.2).
    Every formula of Geom/*.v is written once over [numops M] and instantiated
    - at [PrimFloat.float] for bit-exact execution against the implementation (numpy float64),
    - at [Q] (and [R] where a square root is unavoidable) for the theorems.
    No proofs here. *)
From Coq Require Import List ZArith QArith PrimFloat Uint63.
Import ListNotations.

Record numops (M : Type) := {
  nzero : M;
  nadd : M -> M -> M;
  nsub : M -> M -> M;
  nmul : M -> M -> M;
  ndiv : M -> M -> M;
  nofnat : nat -> M          (* Python int -> carrier (len(...)) *)
}.
Arguments nzero {M}. Arguments nadd {M}. Arguments nsub {M}. Arguments nmul {M}. Arguments ndiv {M}.
Arguments nofnat {M}.

(** IEEE binary64, as numpy float64 / Python float *)
Definition float_of_nat (n : nat) : float := PrimFloat.of_uint63 (Uint63.of_Z (Z.of_nat n)).
Definition numF : numops float :=
  {| nzero := PrimFloat.zero; nadd := PrimFloat.add; nsub := PrimFloat.sub; nmul := PrimFloat.mul;
     ndiv := PrimFloat.div; nofnat := float_of_nat |}.

(** rationals (setoid equality [Qeq]) *)
Definition numQ : numops Q :=
  {| nzero := 0%Q; nadd := Qplus; nsub := Qminus; nmul := Qmult; ndiv := Qdiv;
     nofnat := fun n => inject_Z (Z.of_nat n) |}.

(** 3-vectors and 2-vectors, component-wise *)
Section Vec.
  Context {M : Type} (o : numops M).
  Definition vec3 := (M * M * M)%type.
  Definition v3zero : vec3 := (nzero o, nzero o, nzero o).
  Definition v3add (a b : vec3) : vec3 :=
    let '(a1, a2, a3) := a in let '(b1, b2, b3) := b in (nadd o a1 b1, nadd o a2 b2, nadd o a3 b3).
  Definition v3scale (a : vec3) (c : M) : vec3 :=
    let '(a1, a2, a3) := a in (nmul o a1 c, nmul o a2 c, nmul o a3 c).
  Definition v3div (a : vec3) (c : M) : vec3 :=
    let '(a1, a2, a3) := a in (ndiv o a1 c, ndiv o a2 c, ndiv o a3 c).
  Definition vec2 := (M * M)%type.
  Definition v2sub (a b : vec2) : vec2 := (nsub o (fst a) (fst b), nsub o (snd a) (snd b)).
  Definition v2scale (a : vec2) (c : M) : vec2 := (nmul o (fst a) c, nmul o (snd a) c).
End Vec.
