(** CoordDefs: definitions shared by the statements of C18 and by its executable oracle (NO proofs). *)
From Coq Require Import List ZArith Bool.
From CGV Require Import Base.PyBase Geom.Num Geom.IndexMap.
Import ListNotations.
Open Scope Z_scope.

Fixpoint zlist_eqb (a b : list Z) : bool :=
  match a, b with [], [] => true | x :: a', y :: b' => Z.eqb x y && zlist_eqb a' b' | _, _ => false end.

(** [0; 1; ...; n-1] as node keys *)
Definition iota (n : nat) : list Z := map Z.of_nat (seq 0 n).

(** defect class 1 (embed_3d_via_rdkit, enumeration-index variant): the node list seen by
    networkx_to_rdkit is not 0..n-1 in that order *)
Definition cls_index_not_key (nodes : list Z) : bool := negb (zlist_eqb nodes (iota (length nodes))).
(** defect class 2 (rdkit_to_networkx): the RDKit molecule has a conformer *)
Definition cls_has_conformer (has_conf : bool) : bool := has_conf.

(** "every key carries the position of its own RDKit atom": the observable map sends every node
    to the atom that networkx_to_rdkit created for it *)
Definition on_own_atoms (nodes : list Z) (m : list (Z * nat)) : Prop :=
  forall k, In k nodes -> lookup_last k m = own_atom nodes k.
Definition on_own_atoms_b (nodes : list Z) (m : list (Z * nat)) : bool :=
  forallb (fun k => match lookup_last k m, own_atom nodes k with
                    | Some i, Some j => Nat.eqb i j | _, _ => false end) nodes.
