(** RingProofs: the literal model of collect_ring_number (on the literal PeekIter) consumes exactly
    the maximal run of digits and '%' that follows the first token, returns it (with the token) as
    [partial_str], and leaves the iterator at the first other character, which is the returned
    token (None at the end of the text).  This is what mode [MRing] of the character machine does
    one character at a time ([FragProofs.run_ring]); the [rings] dictionary is local to
    strip_bonding_descriptors and never returned. *)
From Coq Require Import String.
From Coq Require Import List Ascii ZArith Bool Lia.
From CGV Require Import Base.PyBase Base.PyVal Frag.NDict Frag.StripImpl Frag.FragProofs.
Import ListNotations.

Fixpoint take_ring (s : pystr) : pystr :=
  match s with c :: r => if ringch c then c :: take_ring r else [] | [] => [] end.
Fixpoint drop_ring (s : pystr) : pystr :=
  match s with c :: r => if ringch c then drop_ring r else s | [] => [] end.
Lemma take_drop_ring s : take_ring s ++ drop_ring s = s.
Proof. induction s as [|c r IH]; cbn; [reflexivity|]. destruct (ringch c); cbn; [now rewrite IH|reflexivity]. Qed.

Lemma crn_loop_spec : forall fuel it token multi rt partial rings nc,
  length (pi_rest it) < fuel ->
  exists it' rings',
    crn_loop fuel it token multi rt partial rings nc
      = Ok (it', hd_error (drop_ring (pi_rest it)), partial ++ token :: take_ring (pi_rest it), rings')
    /\ pi_rest it' = drop_ring (pi_rest it).
Proof.
  induction fuel as [|f IH]; intros it token multi rt partial rings nc L; [lia|].
  cbn [crn_loop].
  destruct (if multi && is_pct token then (multi, rt, rings_append rt nc rings)
            else if multi && is_digit token then (multi, rt ++ [token], rings)
            else if is_pct token then (true, rt ++ [token], rings)
            else if multi then (multi, [], rings_append rt nc rings)
            else if is_digit token then (multi, rt, rings_append [token] nc rings)
            else (multi, rt, rings)) as [[multi' rt'] rings'].
  destruct (peekiter_abs_peek it) as [Pk Pr].
  destruct (pi_peek it) as [pk it1]. cbn [fst snd] in Pk, Pr.
  destruct (pi_rest it) as [|c r] eqn:Er.
  - (* end of the text *)
    cbn in Pk. subst pk. destruct (pi_next it1) as [[t it2]|e] eqn:En.
    + apply peekiter_abs_next_rest in En. rewrite Pr in En. discriminate En.
    + exists it1, rings'. cbn. split; [reflexivity|assumption].
  - cbn in Pk. subst pk. cbn [take_ring drop_ring].
    destruct (ringch c) eqn:Ec; unfold ringch in Ec.
    + assert (X : negb (is_digit c) && negb (is_pct c) = false).
      { destruct (is_digit c), (is_pct c); try reflexivity; discriminate Ec. }
      rewrite X. destruct (pi_next it1) as [[t it2]|e] eqn:En.
      * pose proof (peekiter_abs_next_rest _ _ _ En) as R. rewrite Pr in R. inversion R; subst t.
        subst r. assert (L2 : length (pi_rest it2) < f) by (cbn in L; lia).
        destruct (IH it2 c multi' rt' (partial ++ [token]) rings' nc L2) as [it' [rg [E1 E2]]].
        exists it', rg. rewrite E1. rewrite <- app_assoc. split; [reflexivity|assumption].
      * apply peekiter_abs_next_stop in En. destruct En as [En _]. rewrite Pr in En. discriminate En.
    + assert (X : negb (is_digit c) && negb (is_pct c) = true).
      { destruct (is_digit c), (is_pct c); try reflexivity; discriminate Ec. }
      rewrite X. exists it1, rings'. cbn. split; [reflexivity|assumption].
Qed.

Theorem collect_ring_number_spec it token nc rings :
  exists it' rings',
    collect_ring_number it token nc rings
      = Ok (it', hd_error (drop_ring (pi_rest it)), token :: take_ring (pi_rest it), rings')
    /\ pi_rest it' = drop_ring (pi_rest it).
Proof.
  unfold collect_ring_number.
  destruct (crn_loop_spec (Datatypes.S (length (pi_rest it))) it token false [token] [] rings nc) as [it' [rg [E1 E2]]]; [lia|].
  exists it', rg. split; assumption.
Qed.
