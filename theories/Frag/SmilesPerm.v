(** SmilesPerm: the token-level graph up to a permutation of the atoms (text level of C01: branch
    order).  Part 1: a state simulation under an index permutation (valid for ANY continuation of the
    token list, ring bonds included).  Part 2: a branch without ring-bond markers acts locally
    ([join]) and uniformly in the index offset ([shiftst]).  Part 3: swapping two adjacent such
    branches on the same atom gives graphs that differ by the block permutation [swap_sigma].
    Everything for [ks = false] (the clean text of strip_bonding_descriptors has no slash marks). *)
From Coq Require Import String.
From Coq Require Import List Ascii ZArith Bool Lia Permutation.
From CGV Require Import Base.PyBase Base.PyVal Gen.SmilesGen Frag.NDict Frag.FragText Frag.SmilesParse Frag.SmilesSpec.
Import ListNotations.

Notation edge := (nat * nat * bondstr)%type.
Definition emap (s : nat -> nat) (e : edge) : edge := let '(u, v, b) := e in (s u, s v, b).
Definition omap (s : nat -> nat) (o : list (Z * (nat * bondstr))) : list (Z * (nat * bondstr)) :=
  map (fun kv => (fst kv, (s (fst (snd kv)), snd (snd kv)))) o.

(** * Part 1: simulation under a permutation *)
Record PSim (s : nat -> nat) (g h : gst) : Prop := {
  ps_n : q_n h = q_n g;
  ps_leng : length (q_atoms g) = q_n g;
  ps_lenh : length (q_atoms h) = q_n h;
  ps_atoms : forall i, i < q_n g -> nth_error (q_atoms h) (s i) = nth_error (q_atoms g) i;
  ps_edges : Permutation (map (emap s) (q_edges g)) (q_edges h);
  ps_cur : q_cur h = option_map s (q_cur g);
  ps_stack : q_stack h = map s (q_stack g);
  ps_open : q_open h = omap s (q_open g);
  ps_pend : q_pend h = q_pend g;
  ps_ez : q_ez h = q_ez g }.
Definition sigma_ok (s : nat -> nat) (n : nat) : Prop :=
  (forall x y, s x = s y -> x = y) /\ (forall i, i < n -> s i < n) /\ (forall i, n <= i -> s i = i).
Lemma sigma_ok_S s n : sigma_ok s n -> sigma_ok s (Datatypes.S n).
Proof.
  intros [I [B F]]. split; [exact I|]. split.
  - intros i L. destruct (Nat.eq_dec i n) as [->|N]; [rewrite F; lia|]. specialize (B i). lia.
  - intros i L. apply F. lia.
Qed.

Lemma has_edge_perm a j (E E' : list edge) : Permutation E E' -> has_edge a j E = has_edge a j E'.
Proof.
  intros P. unfold has_edge. induction P as [|x l l' P IH|x y l|l l' l'' P1 IH1 P2 IH2]; cbn.
  - reflexivity.
  - rewrite IH. reflexivity.
  - rewrite !orb_assoc. f_equal. apply orb_comm.
  - congruence.
Qed.
Lemma has_edge_map s a j (E : list edge) : (forall x y, s x = s y -> x = y) ->
  has_edge (s a) (s j) (map (emap s) E) = has_edge a j E.
Proof.
  intros I. assert (Q : forall x y, Nat.eqb (s x) (s y) = Nat.eqb x y).
  { intros x y. destruct (Nat.eqb_spec x y) as [->|N]; [apply Nat.eqb_refl|].
    destruct (Nat.eqb_spec (s x) (s y)) as [E1|_]; [exfalso; apply N, I, E1|reflexivity]. }
  unfold has_edge. induction E as [|[[u v] b] r IH]; cbn; [reflexivity|]. rewrite !Q, IH. reflexivity.
Qed.
Lemma ring_get_omap s z o : ring_get z (omap s o) = option_map (fun jb => (s (fst jb), snd jb)) (ring_get z o).
Proof. induction o as [|[k [j b]] r IH]; cbn; [reflexivity|]. destruct (Z.eqb z k); [reflexivity|exact IH]. Qed.
Lemma ring_del_omap s z o : ring_del z (omap s o) = omap s (ring_del z o).
Proof.
  unfold ring_del, omap. induction o as [|[k [j b]] r IH]; [reflexivity|].
  cbn [map filter fst snd]. destruct (Z.eqb z k); cbn [negb]; [exact IH|]. cbn [map fst snd]. rewrite IH. reflexivity.
Qed.

Lemma gstep_psim s g h t : sigma_ok s (q_n g) -> PSim s g h ->
  match gstep false g t, gstep false h t with
  | Ok g1, Ok h1 => PSim s g1 h1 /\ sigma_ok s (q_n g1)
  | Err e, Err e' => e = e'
  | _, _ => False
  end.
Proof.
  intros SO [N LG LH A E C K O P Z]. destruct SO as [I [B F]].
  assert (SO : sigma_ok s (q_n g)) by (split; [exact I|split; assumption]).
  destruct t as [e|body annot|b| | |b m|fw|n]; cbn [gstep].
  1,2: (split; [|apply sigma_ok_S; exact SO]); constructor; cbn;
    [ congruence | rewrite app_length; cbn; lia | rewrite app_length; cbn; lia
    | intros i L; destruct (Nat.eq_dec i (q_n g)) as [->|NE];
      [ rewrite F by lia; rewrite nth_error_app2 by lia; rewrite nth_error_app2 by lia;
        replace (q_n g - length (q_atoms h)) with 0 by lia; replace (q_n g - length (q_atoms g)) with 0 by lia; reflexivity
      | assert (L' : i < q_n g) by lia; pose proof (B i L');
        rewrite nth_error_app1 by lia; rewrite nth_error_app1 by lia; apply A; exact L' ]
    | rewrite C; destruct (q_cur g) as [a|]; cbn; [|exact E];
      rewrite map_app; cbn; rewrite N, P, (F (q_n g)) by lia; apply Permutation_app; [exact E|reflexivity]
    | rewrite N, F by lia; reflexivity | assumption | assumption | reflexivity | assumption ].
  - split; [|exact SO]. constructor; cbn; auto.
  - split; [|exact SO]. constructor; cbn; auto. rewrite C, K. destruct (q_cur g); reflexivity.
  - split; [|exact SO]. constructor; cbn; auto.
    + rewrite K, C. destruct (q_stack g); reflexivity.
    + rewrite K. destruct (q_stack g); reflexivity.
  - unfold add_ring. rewrite C. destruct (q_cur g) as [a|]; cbn [option_map]; [|reflexivity].
    rewrite O, ring_get_omap. destruct (ring_get (marker_val m) (q_open g)) as [[j o]|]; cbn [option_map fst snd].
    + destruct (merge_bond (option_map bchar b) o) as [nb|err]; cbn [bind]; [|reflexivity].
      rewrite <- (has_edge_perm _ _ _ _ E), has_edge_map by exact I.
      destruct (has_edge a j (q_edges g)); [reflexivity|].
      assert (Q : Nat.eqb (s a) (s j) = Nat.eqb a j).
      { destruct (Nat.eqb_spec a j) as [->|NE]; [apply Nat.eqb_refl|].
        destruct (Nat.eqb_spec (s a) (s j)) as [E1|_]; [exfalso; apply NE, I, E1|reflexivity]. }
      rewrite Q. destruct (Nat.eqb a j); [reflexivity|].
      split; [|exact SO]. constructor; cbn; auto; try (rewrite C; reflexivity); try apply ring_del_omap;
        rewrite map_app; cbn; apply Permutation_app; [exact E|reflexivity].
    + split; [|exact SO]. constructor; cbn; auto; try (rewrite C; reflexivity).
      unfold omap. rewrite map_app. reflexivity.
  - split; [|exact SO]. constructor; assumption.
  - split; [|exact SO]. constructor; assumption.
Qed.
Lemma grun_psim s : forall toks g h, sigma_ok s (q_n g) -> PSim s g h ->
  match grun false g toks, grun false h toks with
  | Ok g1, Ok h1 => PSim s g1 h1 /\ sigma_ok s (q_n g1)
  | Err e, Err e' => e = e'
  | _, _ => False
  end.
Proof.
  induction toks as [|t r IH]; intros g h SO S; cbn [grun]; [split; assumption|].
  pose proof (gstep_psim s g h t SO S) as H.
  destruct (gstep false g t) as [g1|e], (gstep false h t) as [h1|e']; cbn [bind]; try contradiction; [|exact H].
  destruct H as [H1 H2]. apply IH; assumption.
Qed.

(** * Part 2: a branch without ring-bond markers *)
Fixpoint blkz (z : zone) (depth : nat) (toks : list tok) : bool :=
  match toks with
  | [] => false
  | t :: r =>
      match t with
      | TAtom _ | TBracket _ _ => blkz ZAtom depth r
      | TBond _ | TSlash _ => match z with ZAtom | ZOpen => blkz ZBond depth r | _ => false end
      | TOpen => is_zatom z && blkz ZOpen (Datatypes.S depth) r
      | TClose => is_zatom z && match depth with
                                | O => false
                                | 1 => match r with [] => true | _ => false end
                                | Datatypes.S d => blkz ZAtom d r
                                end
      | TRing _ _ | TMult _ => false
      end
  end.
(** "(" … ")" closing exactly at the end, no ring-bond markers inside *)
Definition is_block (p : list tok) : bool := match p with TOpen :: r => blkz ZOpen 1 r | _ => false end.
Definition count_atoms (toks : list tok) : nat :=
  length (filter (fun t => match t with TAtom _ | TBracket _ _ => true | _ => false end) toks).

Lemma count_atoms_cons t r : count_atoms (t :: r) = count_atoms [t] + count_atoms r.
Proof. unfold count_atoms. cbn [filter]. destruct t; reflexivity. Qed.
Lemma count_atoms_app a b : count_atoms (a ++ b) = count_atoms a + count_atoms b.
Proof. unfold count_atoms. rewrite filter_app, app_length. reflexivity. Qed.

(** the part of the state a branch touches, relative to a base state *)
Definition join (g l : gst) : gst :=
  {| q_atoms := q_atoms g ++ q_atoms l; q_edges := q_edges g ++ q_edges l; q_cur := q_cur l; q_n := q_n l;
     q_pend := q_pend l; q_stack := q_stack l ++ q_stack g; q_open := q_open g; q_ez := q_ez g |}.
Definition local0 (c n : nat) : gst :=
  {| q_atoms := []; q_edges := []; q_cur := Some c; q_n := n; q_pend := None; q_stack := []; q_open := []; q_ez := [] |}.
Definition sh (d n x : nat) : nat := if x <? n then x else x + d.
Definition shiftst (d n : nat) (l : gst) : gst :=
  {| q_atoms := q_atoms l; q_edges := map (emap (sh d n)) (q_edges l); q_cur := option_map (sh d n) (q_cur l);
     q_n := q_n l + d; q_pend := q_pend l; q_stack := map (sh d n) (q_stack l); q_open := q_open l; q_ez := q_ez l |}.

(** local invariants while a branch is read: [n0] = node counter when the branch was opened *)
Record LInv (n0 c : nat) (z : zone) (depth : nat) (l : gst) : Prop := {
  li_n : q_n l = n0 + length (q_atoms l);
  li_edges : forall u v b, In (u, v, b) (q_edges l) -> (u < q_n l /\ v < q_n l);
  li_cur : exists a, q_cur l = Some a /\ a < q_n l;
  li_stack : length (q_stack l) = depth /\ (forall x, In x (q_stack l) -> x < q_n l) /\
             (depth > 0 -> exists st, q_stack l = st ++ [c]);
  li_pend : z <> ZBond -> q_pend l = None }.

Lemma blk_run g n0 c : c < n0 -> forall toks z depth l,
  blkz z depth toks = true -> LInv n0 c z depth l -> depth > 0 ->
  exists l', grun false l toks = Ok l' /\ grun false (join g l) toks = Ok (join g l') /\
             LInv n0 c ZAtom 0 l' /\ q_cur l' = Some c /\
             q_n l' = q_n l + count_atoms toks /\
             (forall d, grun false (shiftst d n0 l) toks = Ok (shiftst d n0 l')).
Proof.
  intros CN. induction toks as [|t r IH]; intros z depth l B LI DP; [discriminate B|].
  destruct LI as [LN LE [a [LC LA]] [LS1 [LS2 LS3]] LP].
  cbn [blkz] in B.
  (* one step, common shape *)
  assert (STEP : forall l1 z1 depth1, gstep false l t = Ok l1 -> gstep false (join g l) t = Ok (join g l1) ->
            (forall d, gstep false (shiftst d n0 l) t = Ok (shiftst d n0 l1)) ->
            q_n l1 = q_n l + count_atoms [t] ->
            blkz z1 depth1 r = true -> LInv n0 c z1 depth1 l1 -> depth1 > 0 ->
            exists l', grun false l (t :: r) = Ok l' /\ grun false (join g l) (t :: r) = Ok (join g l') /\
              LInv n0 c ZAtom 0 l' /\ q_cur l' = Some c /\ q_n l' = q_n l + count_atoms (t :: r) /\
              (forall d, grun false (shiftst d n0 l) (t :: r) = Ok (shiftst d n0 l'))).
  { intros l1 z1 depth1 S1 S2 S3 SN B1 LI1 DP1.
    destruct (IH z1 depth1 l1 B1 LI1 DP1) as [l' [R1 [R2 [R3 [R4 [R5 R6]]]]]].
    exists l'. cbn [grun]. rewrite S1, S2. cbn [bind].
    split; [exact R1|]. split; [exact R2|]. split; [exact R3|]. split; [exact R4|]. split.
    - rewrite R5, SN, (count_atoms_cons t r). lia.
    - intros d. rewrite S3. cbn [bind]. apply R6. }
  assert (SHN : forall d, sh d n0 (q_n l) = q_n l + d) by (intros d; unfold sh; destruct (Nat.ltb_spec (q_n l) n0); lia).
  destruct t as [e|body annot|b| | |b m|fw|n]; try discriminate B.
  - (* atom *)
    apply (STEP (add_atom l e) ZAtom depth); auto.
    + cbn. unfold join, add_atom. cbn. rewrite LC. rewrite <- !app_assoc. reflexivity.
    + intros d. cbn. unfold shiftst, add_atom. cbn. rewrite LC. cbn. rewrite map_app. cbn. rewrite SHN. reflexivity.
    + unfold count_atoms. cbn. lia.
    + constructor; cbn; rewrite ?LC.
      * rewrite app_length. cbn. lia.
      * intros u v b0 IN. apply in_app_or in IN. destruct IN as [IN|[IN|[]]].
        -- destruct (LE u v b0 IN). lia.
        -- inversion IN; subst. lia.
      * eexists. split; [reflexivity|lia].
      * split; [exact LS1|]. split; [intros x IN; specialize (LS2 x IN); lia|exact LS3].
      * reflexivity.
  - apply (STEP (add_atom l (clean_tok (TBracket body annot))) ZAtom depth); auto.
    + cbn. unfold join, add_atom. cbn. rewrite LC. rewrite <- !app_assoc. reflexivity.
    + intros d. cbn. unfold shiftst, add_atom. cbn. rewrite LC. cbn. rewrite map_app. cbn. rewrite SHN. reflexivity.
    + unfold count_atoms. cbn. lia.
    + constructor; cbn; rewrite ?LC.
      * rewrite app_length. cbn. lia.
      * intros u v b0 IN. apply in_app_or in IN. destruct IN as [IN|[IN|[]]].
        -- destruct (LE u v b0 IN). lia.
        -- inversion IN; subst. lia.
      * eexists. split; [reflexivity|lia].
      * split; [exact LS1|]. split; [intros x IN; specialize (LS2 x IN); lia|exact LS3].
      * reflexivity.
  - (* bond *)
    assert (B' : blkz ZBond depth r = true) by (destruct z; try discriminate B; exact B).
    eapply (STEP _ ZBond depth); [reflexivity|reflexivity|intros d; reflexivity|cbn; unfold count_atoms; cbn; lia|exact B'| |exact DP].
    constructor; cbn; auto.
    + eexists; split; [exact LC|exact LA].
    + intros X; exfalso; apply X; reflexivity.
  - (* open *)
    apply andb_prop in B. destruct B as [Bz B]. destruct z; try discriminate Bz.
    eapply (STEP _ ZOpen (Datatypes.S depth)); [reflexivity| |intros d| | exact B| |lia].
    + cbn. unfold join. cbn. rewrite LC. reflexivity.
    + cbn. unfold shiftst. cbn. rewrite LC. cbn. reflexivity.
    + unfold count_atoms. cbn. lia.
    + constructor; cbn; rewrite ?LC; auto.
      * eexists; split; [reflexivity|exact LA].
      * split; [cbn; lia|]. split.
        -- intros x [<-|IN]; [exact LA|apply LS2; exact IN].
        -- intros _. destruct (LS3 DP) as [st Hst]. exists (a :: st). rewrite Hst. reflexivity.
      * intros _. apply LP. discriminate.
  - (* close *)
    apply andb_prop in B. destruct B as [Bz B]. destruct z; try discriminate Bz.
    destruct depth as [|[|d2]]; [discriminate B| |].
    + (* the branch ends *)
      destruct r; [|discriminate B].
      destruct (LS3 DP) as [st Hst]. assert (st = []) by (destruct st as [|x [|y st]]; rewrite Hst in LS1; cbn in LS1;
        [reflexivity|discriminate LS1|rewrite app_length in LS1; cbn in LS1; lia]). subst st. cbn in Hst.
      eexists. cbn [grun gstep bind]. split; [reflexivity|]. split; [|split; [|split; [|split]]].
      * unfold join. cbn. rewrite Hst. reflexivity.
      * constructor; cbn; rewrite ?Hst; cbn; auto;
          try (exists c; split; [reflexivity|lia]);
          try (split; [reflexivity|split; [intros x []|intros X; lia]]);
          try (intros _; apply LP; discriminate).
      * cbn. rewrite Hst. reflexivity.
      * unfold count_atoms. cbn. lia.
      * intros d. unfold shiftst. cbn. rewrite Hst. cbn. unfold sh. destruct (Nat.ltb_spec c n0); [reflexivity|lia].
    + destruct (LS3 DP) as [st Hst].
      destruct (q_stack l) as [|x rest] eqn:Es; [cbn in LS1; discriminate LS1|].
      eapply (STEP _ ZAtom (Datatypes.S d2)); [reflexivity| |intros d| |exact B| |lia].
      * cbn. unfold join. cbn. rewrite Es. reflexivity.
      * cbn. unfold shiftst. cbn. rewrite Es. cbn. reflexivity.
      * unfold count_atoms. cbn. lia.
      * constructor; cbn; rewrite ?Es; cbn; auto;
          try (exists x; split; [reflexivity|apply LS2; left; reflexivity]);
          try (intros _; apply LP; discriminate).
        split; [cbn in LS1; lia|]. split; [intros y IN; apply LS2; right; exact IN|].
        intros _. destruct st as [|y st']; cbn in Hst; inversion Hst; subst.
        -- cbn in LS1. discriminate LS1.
        -- exists st'. reflexivity.
  - (* slash: nothing happens in the clean text *)
    assert (B' : blkz ZBond depth r = true) by (destruct z; try discriminate B; exact B).
    assert (PN : q_pend l = None) by (apply LP; destruct z; try discriminate B; discriminate).
    eapply (STEP l ZBond depth); [reflexivity|reflexivity|intros d; reflexivity|cbn; unfold count_atoms; cbn; lia|exact B'| |exact DP].
    constructor; auto.
    + eexists; split; [exact LC|exact LA].
Qed.

(** a whole branch "(" … ")" read from a state whose current atom is [c] *)
Lemma join_local0 g c : q_cur g = Some c -> q_pend g = None -> join g (local0 c (q_n g)) = g.
Proof. intros C P. destruct g; cbn in *; subst. unfold join, local0. cbn. rewrite !app_nil_r. reflexivity. Qed.
Lemma block_run g c p : is_block p = true -> q_cur g = Some c -> q_pend g = None -> c < q_n g ->
  exists l', grun false g p = Ok (join g l') /\ LInv (q_n g) c ZAtom 0 l' /\ q_cur l' = Some c /\
             q_n l' = q_n g + count_atoms p /\
             (forall d, grun false (local0 c (q_n g + d)) p = Ok (shiftst d (q_n g) l')) /\
             grun false (local0 c (q_n g)) p = Ok l'.
Proof.
  intros B C P L. destruct p as [|t r]; [discriminate B|]. destruct t; try discriminate B. cbn [is_block] in B.
  set (n := q_n g). set (l1 := {| q_atoms := []; q_edges := []; q_cur := Some c; q_n := n; q_pend := None;
                                  q_stack := [c]; q_open := []; q_ez := [] |}).
  assert (LI : LInv n c ZOpen 1 l1).
  { constructor; cbn; auto.
    - intros u v b [].
    - exists c. split; [reflexivity|exact L].
    - split; [reflexivity|]. split; [intros x [<-|[]]; exact L|]. intros _. exists []. reflexivity. }
  destruct (blk_run g n c L r ZOpen 1 l1 B LI ltac:(lia)) as [l' [R1 [R2 [R3 [R4 [R5 R6]]]]]].
  exists l'. split; [|split; [exact R3|split; [exact R4|split; [|split]]]].
  - cbn [grun]. rewrite <- (join_local0 g c C P) at 1. fold n.
    assert (S1 : gstep false (join g (local0 c n)) TOpen = Ok (join g l1)) by reflexivity.
    rewrite S1. cbn [bind]. exact R2.
  - rewrite R5, (count_atoms_cons TOpen r). change (count_atoms [TOpen]) with 0. unfold l1, n. cbn. reflexivity.
  - intros d. cbn [grun].
    assert (S1 : gstep false (local0 c (n + d)) TOpen = Ok (shiftst d n l1)).
    { cbn. unfold shiftst, l1. cbn. unfold sh. destruct (Nat.ltb_spec c n); [reflexivity|lia]. }
    rewrite S1. cbn [bind]. apply R6.
  - cbn [grun]. assert (S1 : gstep false (local0 c n) TOpen = Ok l1) by reflexivity. rewrite S1. cbn [bind]. exact R1.
Qed.

Lemma grun_app ks t1 : forall g t2, grun ks g (t1 ++ t2) = (g' <- grun ks g t1 ;; grun ks g' t2).
Proof. induction t1 as [|t r IH]; intros g t2; cbn; [reflexivity|]. destruct (gstep ks g t); cbn; [apply IH|reflexivity]. Qed.
Lemma grun_app_ok ks g t1 t2 g1 : grun ks g t1 = Ok g1 -> grun ks g (t1 ++ t2) = grun ks g1 t2.
Proof. intros H. rewrite grun_app, H. reflexivity. Qed.

(** * Part 3: two adjacent branches on the same atom, in either order *)
Definition swap_sigma (n a b i : nat) : nat :=
  if i <? n then i else if i <? n + a then i + b else if i <? n + a + b then i - a else i.
Lemma swap_sigma_ok n a b : sigma_ok (swap_sigma n a b) (n + a + b).
Proof.
  unfold sigma_ok, swap_sigma. split; [|split].
  - intros x y. destruct (Nat.ltb_spec x n), (Nat.ltb_spec x (n + a)), (Nat.ltb_spec x (n + a + b)),
      (Nat.ltb_spec y n), (Nat.ltb_spec y (n + a)), (Nat.ltb_spec y (n + a + b)); lia.
  - intros i L. destruct (Nat.ltb_spec i n), (Nat.ltb_spec i (n + a)), (Nat.ltb_spec i (n + a + b)); lia.
  - intros i L. destruct (Nat.ltb_spec i n), (Nat.ltb_spec i (n + a)), (Nat.ltb_spec i (n + a + b)); lia.
Qed.

Lemma swap_sigma_lt n a b x : x < n -> swap_sigma n a b x = x.
Proof. intros L. unfold swap_sigma. destruct (Nat.ltb_spec x n); [reflexivity|lia]. Qed.
Lemma sh_lt d n x : x < n -> sh d n x = x.
Proof. intros L. unfold sh. destruct (Nat.ltb_spec x n); [reflexivity|lia]. Qed.

(** bounds of a reachable state *)
Record GInv (g : gst) : Prop := {
  gi_len : length (q_atoms g) = q_n g;
  gi_edges : forall u v b, In (u, v, b) (q_edges g) -> u < q_n g /\ v < q_n g;
  gi_cur : forall c, q_cur g = Some c -> c < q_n g;
  gi_stack : forall x, In x (q_stack g) -> x < q_n g;
  gi_open : forall z j b, In (z, (j, b)) (q_open g) -> j < q_n g }.
Lemma map_emap_id (s : nat -> nat) (E : list edge) n :
  (forall u v b, In (u, v, b) E -> u < n /\ v < n) -> (forall x, x < n -> s x = x) -> map (emap s) E = E.
Proof.
  intros Bd Id. induction E as [|[[u v] b] r IH]; cbn; [reflexivity|].
  destruct (Bd u v b (or_introl eq_refl)) as [U V]. rewrite (Id u U), (Id v V), IH; [reflexivity|].
  intros u' v' b' IN. apply (Bd u' v' b'). right. exact IN.
Qed.
Lemma map_emap_ext (s t : nat -> nat) (E : list edge) n :
  (forall u v b, In (u, v, b) E -> u < n /\ v < n) -> (forall x, x < n -> s x = t x) -> map (emap s) E = map (emap t) E.
Proof.
  intros Bd Id. induction E as [|[[u v] b] r IH]; cbn; [reflexivity|].
  destruct (Bd u v b (or_introl eq_refl)) as [U V]. rewrite (Id u U), (Id v V), IH; [reflexivity|].
  intros u' v' b' IN. apply (Bd u' v' b'). right. exact IN.
Qed.

Lemma swap_blocks g c pa pb : GInv g -> q_cur g = Some c -> q_pend g = None -> is_block pa = true -> is_block pb = true ->
  exists gab gba, grun false g (pa ++ pb) = Ok gab /\ grun false g (pb ++ pa) = Ok gba /\
    PSim (swap_sigma (q_n g) (count_atoms pa) (count_atoms pb)) gab gba /\
    q_n gab = q_n g + count_atoms pa + count_atoms pb.
Proof.
  intros GI C P BA BB. pose proof (gi_cur g GI c C) as CN.
  set (n := q_n g) in *. set (a := count_atoms pa). set (b := count_atoms pb).
  destruct (block_run g c pa BA C P CN) as [la [RA [LA [CA [NA [SA LA0]]]]]].
  destruct (block_run g c pb BB C P CN) as [lb [RB [LB [CB [NB [SB LB0]]]]]].
  fold n in RA, LA, NA, SA, LA0, RB, LB, NB, SB, LB0. fold a in NA. fold b in NB.
  (* the second branch, read after the first *)
  assert (PA0 : q_pend la = None) by (apply (li_pend _ _ _ _ _ LA); discriminate).
  assert (PB0 : q_pend lb = None) by (apply (li_pend _ _ _ _ _ LB); discriminate).
  assert (SA0 : q_stack la = []) by (destruct (li_stack _ _ _ _ _ LA) as [X _]; destruct (q_stack la); [reflexivity|discriminate X]).
  assert (SB0 : q_stack lb = []) by (destruct (li_stack _ _ _ _ _ LB) as [X _]; destruct (q_stack lb); [reflexivity|discriminate X]).
  assert (RUN2 : forall g1 l1 p2 l2 d, q_cur l1 = Some c -> q_pend l1 = None -> q_n l1 = n + d ->
            is_block p2 = true -> (forall d', grun false (local0 c (n + d')) p2 = Ok (shiftst d' n l2)) ->
            LInv n c ZAtom 0 l2 ->
            grun false (join g1 l1) p2 = Ok (join (join g1 l1) (shiftst d n l2))).
  { intros g1 l1 p2 l2 d C1 P1 N1 B2 S2 L2.
    destruct (block_run (join g1 l1) c p2 B2 C1 P1 ltac:(cbn; lia)) as [l2' [R2 [_ [_ [_ [_ L20]]]]]].
    cbn [join q_n] in L20. rewrite N1, S2 in L20. inversion L20; subst l2'. exact R2. }
  exists (join (join g la) (shiftst a n lb)), (join (join g lb) (shiftst b n la)).
  split; [|split; [|split]].
  - rewrite grun_app_ok with (g1 := join g la); [|exact RA]. apply (RUN2 g la pb lb a CA PA0 NA BB SB LB).
  - rewrite grun_app_ok with (g1 := join g lb); [|exact RB]. apply (RUN2 g lb pa la b CB PB0 NB BA SA LA).
  - pose proof (li_n _ _ _ _ _ LA) as LNA. pose proof (li_n _ _ _ _ _ LB) as LNB.
    assert (LenA : length (q_atoms la) = a) by lia. assert (LenB : length (q_atoms lb) = b) by lia.
    constructor; cbn [join shiftst q_atoms q_edges q_cur q_n q_pend q_stack q_open q_ez].
    + lia.
    + rewrite !app_length. rewrite (gi_len g GI). fold n. lia.
    + rewrite !app_length. rewrite (gi_len g GI). fold n. lia.
    + intros i L. unfold swap_sigma. pose proof (gi_len g GI) as GL. fold n in GL.
      destruct (Nat.ltb_spec i n).
      * rewrite <- !app_assoc. rewrite !nth_error_app1 by lia. reflexivity.
      * destruct (Nat.ltb_spec i (n + a)).
        -- rewrite (nth_error_app1 (q_atoms g ++ q_atoms la)) by (rewrite app_length; lia).
           rewrite (nth_error_app2 (q_atoms g)) by lia.
           rewrite (nth_error_app2 (q_atoms g ++ q_atoms lb)) by (rewrite app_length; lia).
           rewrite app_length. f_equal. lia.
        -- destruct (Nat.ltb_spec i (n + a + b)); [|lia].
           rewrite (nth_error_app2 (q_atoms g ++ q_atoms la)) by (rewrite app_length; lia).
           rewrite (nth_error_app1 (q_atoms g ++ q_atoms lb)) by (rewrite app_length; lia).
           rewrite (nth_error_app2 (q_atoms g)) by lia.
           rewrite app_length. f_equal. lia.
    + rewrite !map_app.
      rewrite (map_emap_id _ (q_edges g) n (gi_edges g GI)) by (intros x X; unfold swap_sigma; destruct (Nat.ltb_spec x n); [reflexivity|lia]).
      assert (EAsh : map (emap (swap_sigma n a b)) (q_edges la) = map (emap (sh b n)) (q_edges la)).
      { apply (map_emap_ext (swap_sigma n a b) (sh b n) (q_edges la) (n + a)).
        - intros u v b0 IN. pose proof (li_edges _ _ _ _ _ LA u v b0 IN). lia.
        - intros x X. unfold swap_sigma, sh. destruct (Nat.ltb_spec x n); [reflexivity|]. destruct (Nat.ltb_spec x (n + a)); lia. }
      rewrite EAsh.
      assert (EBid : map (emap (swap_sigma n a b)) (map (emap (sh a n)) (q_edges lb)) = q_edges lb).
      { rewrite map_map. rewrite <- (map_id (q_edges lb)) at 2. apply map_ext_in. intros [[u v] b0] IN. cbn.
        pose proof (li_edges _ _ _ _ _ LB u v b0 IN) as [U V].
        assert (Q : forall x, x < n + b -> swap_sigma n a b (sh a n x) = x).
        { intros x X. unfold swap_sigma, sh. destruct (Nat.ltb_spec x n).
          - destruct (Nat.ltb_spec x n); [reflexivity|lia].
          - destruct (Nat.ltb_spec (x + a) n); [lia|]. destruct (Nat.ltb_spec (x + a) (n + a)); [lia|].
            destruct (Nat.ltb_spec (x + a) (n + a + b)); lia. }
        rewrite (Q u), (Q v) by lia. reflexivity. }
      rewrite EBid. rewrite <- !app_assoc. apply Permutation_app_head. apply Permutation_app_comm.
    + rewrite CA, CB. cbn [option_map]. rewrite !sh_lt, swap_sigma_lt by lia. reflexivity.
    + rewrite SA0, SB0. cbn. symmetry. rewrite <- (map_id (q_stack g)) at 2. apply map_ext_in.
      intros x IN. pose proof (gi_stack g GI x IN). apply swap_sigma_lt. assumption.
    + unfold omap. rewrite <- (map_id (q_open g)) at 1. apply map_ext_in. intros [z [j b0]] IN. cbn.
      pose proof (gi_open g GI z j b0 IN). rewrite swap_sigma_lt by assumption. reflexivity.
    + rewrite PA0, PB0. reflexivity.
    + reflexivity.
  - cbn. lia.
Qed.

Lemma ginit_inv : GInv ginit.
Proof. constructor; cbn; try reflexivity; try (intros; contradiction); intros; discriminate. Qed.
Lemma ring_get_in z o j b : ring_get z o = Some (j, b) -> In (z, (j, b)) o.
Proof.
  induction o as [|[k v] r IH]; cbn; [discriminate|]. destruct (Z.eqb_spec z k) as [->|N].
  - intros H. inversion H. left. reflexivity.
  - intros H. right. apply IH. exact H.
Qed.
Lemma add_atom_ginv g text : GInv g -> GInv (add_atom g text).
Proof.
  intros [L E C K O]. constructor; cbn.
  - rewrite app_length. cbn. lia.
  - intros u v b0 IN. destruct (q_cur g) as [a|] eqn:Ec.
    + apply in_app_or in IN. destruct IN as [IN|[IN|[]]].
      * destruct (E u v b0 IN). lia.
      * inversion IN; subst. pose proof (C _ eq_refl). lia.
    + destruct (E u v b0 IN). lia.
  - intros c0 Hc. inversion Hc. lia.
  - intros x IN. pose proof (K x IN). lia.
  - intros z j b0 IN. pose proof (O z j b0 IN). lia.
Qed.
Lemma gstep_ginv ks g t g1 : GInv g -> gstep ks g t = Ok g1 -> GInv g1.
Proof.
  intros GI H. pose proof GI as [L E C K O]. destruct t as [e|body annot|b| | |b m|fw|n]; cbn [gstep] in H.
  - inversion H; subst g1. apply add_atom_ginv. exact GI.
  - inversion H; subst g1. apply add_atom_ginv. exact GI.
  - inversion H; subst g1; constructor; cbn; auto.
  - inversion H; subst g1; constructor; cbn; auto.
    intros x IN. destruct (q_cur g) as [a|] eqn:Ec; [|apply K; exact IN].
    destruct IN as [<-|IN]; [apply C; reflexivity|apply K; exact IN].
  - inversion H; subst g1; constructor; cbn; auto.
    + intros c0 Hc. destruct (q_stack g) as [|a st] eqn:Es; [apply C; exact Hc|]. inversion Hc; subst. apply K. left. reflexivity.
    + intros x IN. apply K. destruct (q_stack g); [contradiction|right; exact IN].
  - unfold add_ring in H. destruct (q_cur g) as [a|] eqn:Ec; [|discriminate H].
    destruct (ring_get (marker_val m) (q_open g)) as [[j o]|] eqn:Er.
    + destruct (merge_bond (option_map bchar b) o); cbn in H; [|discriminate H].
      destruct (has_edge a j (q_edges g)); [discriminate H|]. destruct (Nat.eqb a j); [discriminate H|].
      inversion H; subst g1; clear H. constructor; cbn; [exact L| |exact C|exact K|].
      * intros u v b0 IN. apply in_app_or in IN. destruct IN as [IN|[IN|[]]]; [apply (E u v b0 IN)|].
        inversion IN; subst. split; [apply C; reflexivity|]. apply (O _ _ _ (ring_get_in _ _ _ _ Er)).
      * intros z j0 b0 IN. unfold ring_del in IN. apply filter_In in IN. destruct IN as [IN _]. apply (O z j0 b0 IN).
    + inversion H; subst g1; clear H. constructor; cbn; [exact L|exact E|exact C|exact K|].
      intros z j0 b0 IN. apply in_app_or in IN. destruct IN as [IN|[IN|[]]]; [apply (O z j0 b0 IN)|].
      inversion IN; subst. apply C. reflexivity.
  - destruct ks; inversion H; subst g1; constructor; cbn; auto.
  - inversion H; subst g1; constructor; auto.
Qed.
Lemma grun_ginv ks : forall toks g g1, GInv g -> grun ks g toks = Ok g1 -> GInv g1.
Proof.
  induction toks as [|t r IH]; intros g g1 GI H; cbn in H; [inversion H; subst; exact GI|].
  destruct (gstep ks g t) as [g'|e] eqn:Eg; cbn in H; [|discriminate H].
  apply (IH g' g1); [apply (gstep_ginv ks g t g' GI Eg)|exact H].
Qed.

(** two token lists that differ by the order of two adjacent branches on one atom:
    x (pa)(pb) y   and   x (pb)(pa) y *)
Definition base_perm (s : nat -> nat) (n : nat) (b1 b2 : base_obs) : Prop :=
  let '(at1, e1, z1) := b1 in let '(at2, e2, z2) := b2 in
  length at1 = n /\ length at2 = n /\ (forall i, i < n -> nth_error at2 (s i) = nth_error at1 i) /\
  Permutation (map (emap s) e1) e2 /\ z2 = z1.
Theorem swap_branches_base x pa pb y g c :
  grun false ginit x = Ok g -> q_cur g = Some c -> q_pend g = None -> is_block pa = true -> is_block pb = true ->
  let s := swap_sigma (q_n g) (count_atoms pa) (count_atoms pb) in
  match graph_base false (x ++ pa ++ pb ++ y), graph_base false (x ++ pb ++ pa ++ y) with
  | Ok b1, Ok b2 => exists n, base_perm s n b1 b2 /\ sigma_ok s n
  | Err e, Err e' => e = e'
  | _, _ => False
  end.
Proof.
  intros RX C P BA BB s. pose proof (grun_ginv false x ginit g ginit_inv RX) as GI.
  destruct (swap_blocks g c pa pb GI C P BA BB) as [gab [gba [RAB [RBA [PS NAB]]]]].
  unfold graph_base. rewrite !(grun_app_ok false ginit x _ g RX).
  rewrite !app_assoc. rewrite (grun_app_ok false g (pa ++ pb) y gab RAB), (grun_app_ok false g (pb ++ pa) y gba RBA).
  assert (SO : sigma_ok s (q_n gab)) by (rewrite NAB; apply swap_sigma_ok).
  pose proof (grun_psim s y gab gba SO PS) as H.
  destruct (grun false gab y) as [g1|e], (grun false gba y) as [h1|e']; cbn [bind]; try contradiction; [|exact H].
  destruct H as [[N LG LH A E _ _ _ _ Z] SO1]. exists (q_n g1). split; [|exact SO1].
  unfold base_perm. repeat split; auto. lia.
Qed.

(** * Part 4: through [interpret] (atom attributes, bond orders) *)
Notation vedge := (nat * nat * pyval)%type.
Definition emapv (s : nat -> nat) (e : vedge) : vedge := let '(u, v, o) := e in (s u, s v, o).
Definition graph_perm (s : nat -> nat) (n : nat) (G H : sgraph) : Prop :=
  length (g_nodes G) = n /\ length (g_nodes H) = n /\
  (forall i, i < n -> nth_error (g_nodes H) (s i) = nth_error (g_nodes G) i) /\
  Permutation (map (emapv s) (g_edges G)) (g_edges H) /\ g_ez H = g_ez G.
(** [t] inverts [s] below [n] *)
Definition sigma_inv (s t : nat -> nat) (n : nat) : Prop := forall j, j < n -> t j < n /\ s (t j) = j.

Section MapRes.
  Context {A B : Type} (f : A -> res B).
  Lemma map_res_ok : forall l r, map_res f l = Ok r ->
    length r = length l /\ forall i x, nth_error l i = Some x -> exists y, f x = Ok y /\ nth_error r i = Some y.
  Proof.
    induction l as [|a l IH]; intros r H; cbn in H.
    - inversion H. split; [reflexivity|]. intros i x N. destruct i; discriminate N.
    - destruct (f a) as [y|e] eqn:Ea; cbn in H; [|discriminate H].
      destruct (map_res f l) as [ys|e]; cbn in H; [|discriminate H]. inversion H; subst r.
      destruct (IH ys eq_refl) as [L P]. split; [cbn; lia|].
      intros [|i] x N; cbn in N.
      + inversion N; subst. exists y. split; [exact Ea|reflexivity].
      + apply P. exact N.
  Qed.
  Lemma map_res_all_ok : forall l, (forall x, In x l -> exists y, f x = Ok y) -> exists r, map_res f l = Ok r.
  Proof.
    induction l as [|a l IH]; intros H; cbn; [eexists; reflexivity|].
    destruct (H a (or_introl eq_refl)) as [y Ey]. rewrite Ey. cbn.
    destruct (IH (fun x IN => H x (or_intror IN))) as [r Er]. rewrite Er. eexists. reflexivity.
  Qed.
  Lemma map_res_err : forall l e, map_res f l = Err e -> exists x, In x l /\ f x = Err e.
  Proof.
    induction l as [|a l IH]; intros e H; cbn in H; [discriminate H|].
    destruct (f a) as [y|e0] eqn:Ea; cbn in H.
    - destruct (map_res f l) as [ys|e1] eqn:Em; cbn in H; [discriminate H|]. inversion H; subst.
      destruct (IH e eq_refl) as [x [IN Ex]]. exists x. split; [right; exact IN|exact Ex].
    - inversion H; subst. exists a. split; [left; reflexivity|exact Ea].
  Qed.
End MapRes.

Lemma parse_atom_err x e : parse_atom x = Err e -> e = EValue.
Proof.
  unfold parse_atom. destruct (negb (starts_with_lbr x) && negb (ends_with_rbr x)).
  - destruct (negb (str_eqb x (S "*"))); discriminate.
  - destruct (atom_match x); [|intros H; inversion H; reflexivity].
    destruct (str_eqb _ (S "H") && _); intros H; inversion H; reflexivity.
Qed.

Lemma nodes_perm s t n (l1 l2 : list pystr) :
  length l1 = n -> length l2 = n -> (forall i, i < n -> nth_error l2 (s i) = nth_error l1 i) -> sigma_inv s t n ->
  match map_res parse_atom l1, map_res parse_atom l2 with
  | Ok r1, Ok r2 => length r1 = n /\ length r2 = n /\ forall i, i < n -> nth_error r2 (s i) = nth_error r1 i
  | Err e, Err e' => e = e'
  | _, _ => False
  end.
Proof.
  intros L1 L2 A T.
  assert (IN12 : forall x, In x l1 -> In x l2).
  { intros x IN. apply In_nth_error in IN. destruct IN as [i Hi].
    assert (i < n) by (rewrite <- L1; apply nth_error_Some; congruence).
    apply (nth_error_In l2 (s i)). rewrite A by assumption. exact Hi. }
  assert (IN21 : forall x, In x l2 -> In x l1).
  { intros x IN. apply In_nth_error in IN. destruct IN as [j Hj].
    assert (J : j < n) by (rewrite <- L2; apply nth_error_Some; congruence).
    destruct (T j J) as [TJ SJ]. apply (nth_error_In l1 (t j)). rewrite <- A by assumption. rewrite SJ. exact Hj. }
  destruct (map_res parse_atom l1) as [r1|e1] eqn:E1, (map_res parse_atom l2) as [r2|e2] eqn:E2.
  - destruct (map_res_ok _ _ _ E1) as [LR1 P1]. destruct (map_res_ok _ _ _ E2) as [LR2 P2].
    split; [lia|]. split; [lia|]. intros i I.
    destruct (nth_error l1 i) as [x|] eqn:Nx; [|apply nth_error_None in Nx; lia].
    destruct (P1 i x Nx) as [y1 [F1 R1]]. pose proof (A i I) as Ai. rewrite Nx in Ai.
    destruct (P2 (s i) x Ai) as [y2 [F2 R2]]. rewrite R1, R2. congruence.
  - destruct (map_res_err _ _ _ E2) as [x [IN Ex]]. apply IN21 in IN. apply In_nth_error in IN. destruct IN as [i Hi].
    destruct (map_res_ok _ _ _ E1) as [_ P1]. destruct (P1 i x Hi) as [y [Fy _]]. congruence.
  - destruct (map_res_err _ _ _ E1) as [x [IN Ex]]. apply IN12 in IN. apply In_nth_error in IN. destruct IN as [i Hi].
    destruct (map_res_ok _ _ _ E2) as [_ P2]. destruct (P2 i x Hi) as [y [Fy _]]. congruence.
  - destruct (map_res_err _ _ _ E1) as [x [_ Ex]]. destruct (map_res_err _ _ _ E2) as [x' [_ Ex']].
    rewrite (parse_atom_err _ _ Ex), (parse_atom_err _ _ Ex'). reflexivity.
Qed.

Lemma map_res_perm {A B} (f : A -> res B) l l' : Permutation l l' ->
  match map_res f l, map_res f l' with
  | Ok r, Ok r' => Permutation r r'
  | Err _, Err _ => True
  | _, _ => False
  end.
Proof.
  intros P. induction P as [|x l l' P IH|x y l|l l' l'' P1 IH1 P2 IH2]; cbn.
  - constructor.
  - destruct (f x); cbn; [|exact I].
    destruct (map_res f l), (map_res f l'); cbn; try contradiction; [|exact I]. constructor. exact IH.
  - destruct (f y), (f x); cbn; try exact I; destruct (map_res f l); cbn; try exact I. constructor.
  - destruct (map_res f l), (map_res f l'), (map_res f l''); try contradiction; try exact I.
    eapply Permutation_trans; eassumption.
Qed.
Lemma map_res_map {A A' B B'} (f1 : A -> res B) (f2 : A' -> res B') (ga : A -> A') (gb : B -> B') :
  (forall x, f2 (ga x) = match f1 x with Ok v => Ok (gb v) | Err e => Err e end) ->
  forall l, map_res f2 (map ga l) = match map_res f1 l with Ok r => Ok (map gb r) | Err e => Err e end.
Proof.
  intros H. induction l as [|x l IH]; cbn; [reflexivity|]. rewrite H. destruct (f1 x); cbn; [|reflexivity].
  rewrite IH. destruct (map_res f1 l); reflexivity.
Qed.
Lemma edge_order_err nodes e x : edge_order nodes e = Err x -> x = EKey.
Proof.
  destruct e as [[u v] [c|]]; cbn.
  - unfold smiles_bond_to_order_lookup. destruct (find _ _); cbn; intros H; inversion H; reflexivity.
  - destruct (node_aromatic nodes u && node_aromatic nodes v); discriminate.
Qed.
Lemma edge_order_perm s n nodes1 nodes2 e :
  length nodes1 = n -> length nodes2 = n -> (forall i, i < n -> nth_error nodes2 (s i) = nth_error nodes1 i) ->
  (forall i, n <= i -> s i = i) ->
  edge_order nodes2 (emap s e) = match edge_order nodes1 e with Ok v => Ok (emapv s v) | Err x => Err x end.
Proof.
  intros L1 L2 A F.
  assert (AR : forall u, node_aromatic nodes2 (s u) = node_aromatic nodes1 u).
  { intros u. unfold node_aromatic. destruct (Nat.lt_ge_cases u n) as [U|U].
    - rewrite A by assumption. reflexivity.
    - rewrite F by assumption. assert (N1 : nth_error nodes1 u = None) by (apply nth_error_None; lia).
      assert (N2 : nth_error nodes2 u = None) by (apply nth_error_None; lia). rewrite N1, N2. reflexivity. }
  destruct e as [[u v] [c|]]; cbn.
  - destruct (smiles_bond_to_order_lookup [c]); reflexivity.
  - rewrite !AR. destruct (node_aromatic nodes1 u && node_aromatic nodes1 v); reflexivity.
Qed.

Lemma interpret_perm s t n b1 b2 : base_perm s n b1 b2 -> sigma_ok s n -> sigma_inv s t n ->
  match interpret b1, interpret b2 with
  | Ok G, Ok H => graph_perm s n G H
  | Err e, Err e' => e = e'
  | _, _ => False
  end.
Proof.
  destruct b1 as [[at1 e1] z1], b2 as [[at2 e2] z2]. intros [L1 [L2 [A [PE Z]]]] [I [B F]] T. subst z2.
  unfold interpret. pose proof (nodes_perm s t n at1 at2 L1 L2 A T) as NP.
  destruct (map_res parse_atom at1) as [r1|x1], (map_res parse_atom at2) as [r2|x2]; cbn [bind]; try contradiction; [|exact NP].
  destruct NP as [LR1 [LR2 AR]].
  pose proof (map_res_perm (edge_order r2) _ _ PE) as MP.
  rewrite (map_res_map (edge_order r1) (edge_order r2) (emap s) (emapv s)
             (fun e => edge_order_perm s n r1 r2 e LR1 LR2 AR F)) in MP.
  destruct (map_res (edge_order r1) e1) as [es1|x1] eqn:E1, (map_res (edge_order r2) e2) as [es2|x2] eqn:E2;
    cbn [bind]; try contradiction.
  - unfold graph_perm. cbn. repeat split; auto.
  - destruct (map_res_err _ _ _ E1) as [y [_ Ey]]. destruct (map_res_err _ _ _ E2) as [y' [_ Ey']].
    rewrite (edge_order_err _ _ _ Ey), (edge_order_err _ _ _ Ey'). reflexivity.
Qed.

Lemma swap_sigma_inv n a b : sigma_inv (swap_sigma n a b) (swap_sigma n b a) (n + a + b).
Proof.
  intros j J. unfold swap_sigma.
  destruct (Nat.ltb_spec j n).
  - split; [lia|]. destruct (Nat.ltb_spec j n); [reflexivity|lia].
  - destruct (Nat.ltb_spec j (n + b)).
    + split; [lia|]. destruct (Nat.ltb_spec (j + a) n); [lia|]. destruct (Nat.ltb_spec (j + a) (n + a)); [lia|].
      destruct (Nat.ltb_spec (j + a) (n + a + b)); lia.
    + destruct (Nat.ltb_spec j (n + b + a)); [|lia]. split; [lia|].
      destruct (Nat.ltb_spec (j - b) n); [lia|]. destruct (Nat.ltb_spec (j - b) (n + a)); lia.
Qed.

(** the graphs of  x (pa)(pb) y  and  x (pb)(pa) y  are the same up to the block permutation *)
Theorem swap_branches x pa pb y g c :
  grun false ginit x = Ok g -> q_cur g = Some c -> q_pend g = None -> is_block pa = true -> is_block pb = true ->
  let s := swap_sigma (q_n g) (count_atoms pa) (count_atoms pb) in
  match graph_of false (x ++ pa ++ pb ++ y), graph_of false (x ++ pb ++ pa ++ y) with
  | Ok G, Ok H => exists n, graph_perm s n G H
  | Err e, Err e' => e = e'
  | _, _ => False
  end.
Proof.
  intros RX C P BA BB s. pose proof (swap_branches_base x pa pb y g c RX C P BA BB) as H. fold s in H.
  unfold graph_of.
  destruct (graph_base false (x ++ pa ++ pb ++ y)) as [b1|e1] eqn:E1,
           (graph_base false (x ++ pb ++ pa ++ y)) as [b2|e2] eqn:E2; cbn [bind]; try contradiction; [|exact H].
  destruct H as [n [BP SO]].
  (* the length is n0 + a + b + (atoms of y): the inverse of s there is the swap with a and b exchanged *)
  assert (T : sigma_inv s (swap_sigma (q_n g) (count_atoms pb) (count_atoms pa)) n).
  { destruct SO as [I [B F]]. intros j J.
    set (m := q_n g + count_atoms pa + count_atoms pb).
    destruct (Nat.lt_ge_cases j m) as [JM|JM].
    - destruct (swap_sigma_inv (q_n g) (count_atoms pa) (count_atoms pb) j JM) as [T1 T2]. split; [|exact T2].
      destruct (Nat.lt_ge_cases m n); [fold m in T1; lia|].
      (* n <= m cannot cut a block: s maps below n into below n *)
      assert (Q := B (swap_sigma (q_n g) (count_atoms pb) (count_atoms pa) j)).
      destruct (Nat.lt_ge_cases (swap_sigma (q_n g) (count_atoms pb) (count_atoms pa) j) n) as [X|X]; [exact X|].
      pose proof (F _ X) as FX. unfold s in FX. rewrite T2 in FX. lia.
    - assert (E : swap_sigma (q_n g) (count_atoms pb) (count_atoms pa) j = j).
      { unfold swap_sigma. fold m in JM. destruct (Nat.ltb_spec j (q_n g)); [lia|].
        destruct (Nat.ltb_spec j (q_n g + count_atoms pb)); [lia|].
        destruct (Nat.ltb_spec j (q_n g + count_atoms pb + count_atoms pa)); [lia|reflexivity]. }
      rewrite E. split; [exact J|]. unfold s, swap_sigma.
      destruct (Nat.ltb_spec j (q_n g)); [lia|]. destruct (Nat.ltb_spec j (q_n g + count_atoms pa)); [lia|].
      destruct (Nat.ltb_spec j (q_n g + count_atoms pa + count_atoms pb)); [lia|reflexivity]. }
  pose proof (interpret_perm s _ n b1 b2 BP SO T) as IP.
  destruct (interpret b1), (interpret b2); try contradiction; [exists n; exact IP|exact IP].
Qed.

(** for the texts: what pysmiles builds from the two writings (clean texts) *)
From CGV Require Import Frag.SmilesProofs.
Theorem swap_branches_text x pa pb y g c :
  wf_smiles (x ++ pa ++ pb ++ y) = true -> wf_smiles (x ++ pb ++ pa ++ y) = true ->
  grun false ginit x = Ok g -> q_cur g = Some c -> q_pend g = None -> is_block pa = true -> is_block pb = true ->
  let s := swap_sigma (q_n g) (count_atoms pa) (count_atoms pb) in
  match smiles_parse (render_smiles false (x ++ pa ++ pb ++ y)), smiles_parse (render_smiles false (x ++ pb ++ pa ++ y)) with
  | Ok G, Ok H => exists n, graph_perm s n G H
  | Err e, Err e' => e = e'
  | _, _ => False
  end.
Proof.
  intros W1 W2 RX C P BA BB. rewrite (render_parse false _ W1), (render_parse false _ W2).
  apply (swap_branches x pa pb y g c RX C P BA BB).
Qed.

(** non-vacuity: CC(F)(C=O)N and CC(C=O)(F)N *)
Definition sw_x := [TAtom (S "C"); TAtom (S "C")].
Definition sw_pa := [TOpen; TAtom (S "F"); TClose].
Definition sw_pb := [TOpen; TAtom (S "C"); TBond BDouble; TAtom (S "O"); TClose].
Definition sw_y := [TAtom (S "N")].
Lemma swap_example :
  to_string (render_smiles false (sw_x ++ sw_pa ++ sw_pb ++ sw_y)) = "CC(F)(C=O)N"%string /\
  to_string (render_smiles false (sw_x ++ sw_pb ++ sw_pa ++ sw_y)) = "CC(C=O)(F)N"%string /\
  wf_smiles (sw_x ++ sw_pa ++ sw_pb ++ sw_y) = true /\ wf_smiles (sw_x ++ sw_pb ++ sw_pa ++ sw_y) = true /\
  is_block sw_pa = true /\ is_block sw_pb = true /\
  (exists g, grun false ginit sw_x = Ok g /\ q_cur g = Some 1 /\ q_pend g = None /\ q_n g = 2) /\
  (exists G H, graph_of false (sw_x ++ sw_pa ++ sw_pb ++ sw_y) = Ok G /\ graph_of false (sw_x ++ sw_pb ++ sw_pa ++ sw_y) = Ok H /\
     length (g_nodes G) = 6 /\ length (g_edges G) = 5 /\ G <> H /\
     map (swap_sigma 2 1 2) [0; 1; 2; 3; 4; 5] = [0; 1; 4; 2; 3; 5]).
Proof.
  repeat (split; [vm_compute; reflexivity|]). split.
  - eexists. split; [vm_compute; reflexivity|]. repeat split; reflexivity.
  - eexists. eexists. split; [vm_compute; reflexivity|]. split; [vm_compute; reflexivity|].
    split; [reflexivity|]. split; [reflexivity|]. split; [discriminate|reflexivity].
Qed.
