(** FragSmall: bounded exhaustive check of C13 by computation: every item list of length <= 5 over
    a 15-item alphabet (leading / non-leading descriptors with and without symbol (also the order-0 symbol and the order-1.5 symbol ':'), one- and
    two-letter atoms, bracket atoms with and without annotation, bond, branch, ring markers with
    and without symbol, slash).  Independent of the inductive proof in FragProofs.v. *)
From Coq Require Import String.
From Coq Require Import List Ascii ZArith Bool Lia.
From CGV Require Import Base.PyBase Base.PyVal Dialect.DialectImpl Frag.NDict Frag.StripImpl Frag.FragText Frag.StripFacts.
Import ListNotations.

(** sound (not complete) boolean equality on results *)
Fixpoint list_eqb {A} (eqb : A -> A -> bool) (a b : list A) : bool :=
  match a, b with [], [] => true | x :: a', y :: b' => eqb x y && list_eqb eqb a' b' | _, _ => false end.
Lemma list_eqb_sound {A} (eqb : A -> A -> bool) : (forall x y, eqb x y = true -> x = y) ->
  forall a b, list_eqb eqb a b = true -> a = b.
Proof.
  intros S. induction a as [|x a IH]; destruct b as [|y b]; cbn; try discriminate; [reflexivity|].
  intros H. apply andb_prop in H. destruct H as [H1 H2]. f_equal; [apply S; assumption|apply IH; assumption].
Qed.
Definition pair_eqb {A B} (ea : A -> A -> bool) (eb : B -> B -> bool) (p q : A * B) : bool :=
  ea (fst p) (fst q) && eb (snd p) (snd q).
Lemma pair_eqb_sound {A B} (ea : A -> A -> bool) (eb : B -> B -> bool) :
  (forall x y, ea x y = true -> x = y) -> (forall x y, eb x y = true -> x = y) ->
  forall p q, pair_eqb ea eb p q = true -> p = q.
Proof.
  intros Sa Sb [a b] [c d]. unfold pair_eqb. cbn. intros H. apply andb_prop in H. destruct H as [H1 H2].
  f_equal; [apply Sa|apply Sb]; assumption.
Qed.
Definition leaf_eqb (a b : pyval) : bool :=
  match a, b with
  | VNone, VNone => true | VBool x, VBool y => Bool.eqb x y | VInt x, VInt y => Z.eqb x y
  | VFlt x, VFlt y => str_eqb x y | VStr x, VStr y => str_eqb x y | _, _ => false
  end.
Lemma leaf_eqb_sound a b : leaf_eqb a b = true -> a = b.
Proof.
  destruct a, b; cbn; try discriminate; intros H; try reflexivity.
  - apply Bool.eqb_prop in H. now subst.
  - apply Z.eqb_eq in H. now subst.
  - apply str_eqb_eq in H. now subst.
  - apply str_eqb_eq in H. now subst.
Qed.
Lemma str_eqb_sound a b : str_eqb a b = true -> a = b.
Proof. apply str_eqb_eq. Qed.
Lemma nat_eqb_sound a b : Nat.eqb a b = true -> a = b.
Proof. apply Nat.eqb_eq. Qed.
Lemma ascii_eqb_sound a b : Ascii.eqb a b = true -> a = b.
Proof. apply Ascii.eqb_eq. Qed.

Definition result_eqb (a b : result) : bool :=
  let '(s1, d1, e1, a1) := a in let '(s2, d2, e2, a2) := b in
  str_eqb s1 s2 && list_eqb (pair_eqb Nat.eqb (list_eqb str_eqb)) d1 d2 &&
  list_eqb (pair_eqb Nat.eqb Ascii.eqb) e1 e2 &&
  list_eqb (pair_eqb Nat.eqb (list_eqb (pair_eqb str_eqb leaf_eqb))) a1 a2.
Lemma result_eqb_sound a b : result_eqb a b = true -> a = b.
Proof.
  destruct a as [[[s1 d1] e1] a1], b as [[[s2 d2] e2] a2]. unfold result_eqb. intros H.
  apply andb_prop in H. destruct H as [H Ha]. apply andb_prop in H. destruct H as [H He].
  apply andb_prop in H. destruct H as [Hs Hd].
  apply str_eqb_sound in Hs.
  apply (list_eqb_sound _ (pair_eqb_sound _ _ nat_eqb_sound (list_eqb_sound _ str_eqb_sound))) in Hd.
  apply (list_eqb_sound _ (pair_eqb_sound _ _ nat_eqb_sound ascii_eqb_sound)) in He.
  apply (list_eqb_sound _ (pair_eqb_sound _ _ nat_eqb_sound
           (list_eqb_sound _ (pair_eqb_sound _ _ str_eqb_sound leaf_eqb_sound)))) in Ha.
  subst. reflexivity.
Qed.
(** both succeed with equal results (errors do not occur on the alphabet below) *)
Definition ok_eqb (a b : res result) : bool :=
  match a, b with Ok x, Ok y => result_eqb x y | _, _ => false end.
Lemma ok_eqb_sound a b : ok_eqb a b = true -> a = b.
Proof. destruct a, b; cbn; try discriminate. intros H. f_equal. now apply result_eqb_sound. Qed.

Definition small_alphabet : list ditem :=
  [ ILead (mkd "$" [] None); ILead (mkd "<" (S "a") (Some BDouble));
    ITok C_; ITok (TAtom (S "Cl")); ITok (TBracket (S "NH3+") None); ITok (TBracket (S "C") (Some (S "x=R")));
    ITok (TBond BDouble); ITok TOpen; ITok TClose; ITok (TRing None (S "1")); ITok (TRing (Some BDouble) (S "%12"));
    ITok (TSlash true); IDesc (mkd "$" [] None); IDesc (mkd ">" (S "1") (Some BArom)); IDesc (mkd "!" [] (Some BZero)) ].
Definition small_bound : nat := 5.

Definition check_item_list (items : list ditem) : bool :=
  if wf_items ZStart 0 items && negb (excluded_items items)
  then ok_eqb (strip_bonding_descriptors fo0 (render items)) (spec_items fo0 items)
  else true.

(** depth-first enumeration of all lists of length <= n over the alphabet (built from the right),
    without materialising the list of lists *)
Fixpoint all_ok (alphabet : list ditem) (n : nat) (suffix : list ditem) : bool :=
  check_item_list suffix &&
  match n with
  | O => true
  | Datatypes.S k => forallb (fun a => all_ok alphabet k (a :: suffix)) alphabet
  end.
Lemma all_ok_spec alphabet : forall n suffix, all_ok alphabet n suffix = true ->
  forall l, length l <= n -> (forall i, In i l -> In i alphabet) -> check_item_list (l ++ suffix) = true.
Proof.
  induction n as [|k IH]; intros suffix H l L A; cbn [all_ok] in H; apply andb_prop in H; destruct H as [H1 H2].
  - destruct l; [assumption|cbn in L; lia].
  - destruct l as [|x l0] eqn:El; [assumption|].
    assert (NE : x :: l0 <> []) by discriminate.
    destruct (exists_last NE) as [l' [a E]]. rewrite E in *. clear El NE E.
    rewrite <- app_assoc. cbn [app].
    rewrite forallb_forall in H2. apply (IH (a :: suffix)).
    + apply H2. apply A. apply in_or_app. right. left. reflexivity.
    + rewrite app_length in L. cbn in L. lia.
    + intros i I. apply A. apply in_or_app. left. assumption.
Qed.

Lemma small_all : all_ok small_alphabet small_bound [] = true.
Proof. vm_compute. reflexivity. Qed.

Theorem strip_small : forall items, length items <= small_bound -> (forall i, In i items -> In i small_alphabet) ->
  wf_items ZStart 0 items = true -> excluded_items items = false ->
  strip_bonding_descriptors fo0 (render items) = spec_items fo0 items.
Proof.
  intros items L A W X. pose proof (all_ok_spec small_alphabet small_bound [] small_all items L A) as H.
  rewrite app_nil_r in H. unfold check_item_list in H. rewrite W, X in H. cbn in H. now apply ok_eqb_sound.
Qed.
(** how many of the enumerated lists are in the domain and outside the defect class *)
Fixpoint count_judged (alphabet : list ditem) (n : nat) (suffix : list ditem) : nat :=
  (if wf_items ZStart 0 suffix && negb (excluded_items suffix) then 1 else 0) +
  match n with
  | O => 0
  | Datatypes.S k => fold_left (fun acc a => acc + count_judged alphabet k (a :: suffix)) alphabet 0
  end.
Definition small_judged : nat := count_judged small_alphabet small_bound [].
