(** SmilesRelabel: the graph of a token list does not depend on the choice of ring-bond numbers:
    re-labelling the markers by any map that is injective on the numbers (another digit, %nn for a
    digit, …) gives the same graph (text level of C01, "ring-digit choice"). *)
From Coq Require Import String.
From Coq Require Import List Ascii ZArith Bool Lia.
From CGV Require Import Base.PyBase Base.PyVal Frag.NDict Frag.FragText Frag.SmilesParse Frag.SmilesSpec Frag.SmilesProofs.
Import ListNotations.

Definition relabel (f : pystr -> pystr) (toks : list tok) : list tok :=
  map (fun t => match t with TRing b m => TRing b (f m) | _ => t end) toks.

Section Relabel.
  Variables (f : pystr -> pystr) (rho : Z -> Z).
  Hypothesis Hf : forall m, marker_val (f m) = rho (marker_val m).
  Hypothesis Hinj : forall x y, rho x = rho y -> x = y.

  Definition map_open (o : list (Z * (nat * bondstr))) := map (fun kv => (rho (fst kv), snd kv)) o.
  Definition gsim (g g' : gst) : Prop :=
    q_atoms g' = q_atoms g /\ q_edges g' = q_edges g /\ q_cur g' = q_cur g /\ q_n g' = q_n g /\ q_pend g' = q_pend g /\
    q_stack g' = q_stack g /\ q_open g' = map_open (q_open g) /\ q_ez g' = q_ez g.

  Lemma rho_eqb x y : Z.eqb (rho x) (rho y) = Z.eqb x y.
  Proof.
    destruct (Z.eqb_spec x y) as [->|N]; [apply Z.eqb_refl|].
    destruct (Z.eqb_spec (rho x) (rho y)) as [E|_]; [exfalso; apply N, Hinj, E|reflexivity].
  Qed.
  Lemma ring_get_map z o : ring_get (rho z) (map_open o) = ring_get z o.
  Proof. induction o as [|[k v] r IH]; cbn; [reflexivity|]. rewrite rho_eqb. destruct (Z.eqb z k); [reflexivity|exact IH]. Qed.
  Lemma ring_del_map z o : ring_del (rho z) (map_open o) = map_open (ring_del z o).
  Proof.
    unfold ring_del, map_open. induction o as [|[k v] r IH]; [reflexivity|].
    cbn [map filter fst snd]. rewrite rho_eqb. destruct (Z.eqb z k); cbn [negb]; [exact IH|].
    cbn [map fst snd]. rewrite IH. reflexivity.
  Qed.

  Lemma gstep_sim ks g g' t : gsim g g' ->
    match gstep ks g t, gstep ks g' (match t with TRing b m => TRing b (f m) | _ => t end) with
    | Ok g1, Ok g1' => gsim g1 g1'
    | Err e, Err e' => e = e'
    | _, _ => False
    end.
  Proof.
    intros [A [E [C [N [P [K [O Z]]]]]]].
    destruct t as [e|body annot|b| | |b m|fw|n]; cbn [gstep].
    - unfold gsim, add_atom. cbn. rewrite A, E, C, N, P, K, O, Z. repeat split; reflexivity.
    - unfold gsim, add_atom. cbn. rewrite A, E, C, N, P, K, O, Z. repeat split; reflexivity.
    - unfold gsim. cbn. rewrite A, E, C, N, K, O, Z. repeat split; reflexivity.
    - unfold gsim. cbn. rewrite A, E, C, N, P, K, O, Z. repeat split; reflexivity.
    - unfold gsim. cbn. rewrite A, E, C, N, P, K, O, Z. repeat split; reflexivity.
    - unfold add_ring. rewrite C, Hf, O, ring_get_map, E.
      destruct (q_cur g) as [a|]; [|reflexivity].
      destruct (ring_get (marker_val m) (q_open g)) as [[j o]|].
      + destruct (merge_bond (option_map bchar b) o) as [nb|err]; cbn [bind]; [|reflexivity].
        destruct (has_edge a j (q_edges g)); [reflexivity|]. destruct (Nat.eqb a j); [reflexivity|].
        unfold gsim. cbn. rewrite ?A, ?C, ?N, ?K, ?Z, ?E, ?O, ?ring_del_map. repeat split; reflexivity.
      + unfold gsim. cbn. rewrite ?A, ?C, ?N, ?K, ?Z, ?E, ?O. unfold map_open. rewrite map_app. cbn. repeat split; reflexivity.
    - destruct ks; unfold gsim; cbn; rewrite ?A, ?E, ?C, ?N, ?P, ?K, ?O, ?Z; repeat split; auto.
    - unfold gsim. repeat split; assumption.
  Qed.
  Lemma grun_sim ks : forall toks g g', gsim g g' ->
    match grun ks g toks, grun ks g' (relabel f toks) with
    | Ok g1, Ok g1' => gsim g1 g1'
    | Err e, Err e' => e = e'
    | _, _ => False
    end.
  Proof.
    induction toks as [|t r IH]; intros g g' S; cbn [grun relabel map]; [exact S|].
    pose proof (gstep_sim ks g g' t S) as H.
    destruct (gstep ks g t) as [g1|e], (gstep ks g' _) as [g1'|e']; cbn [bind]; try contradiction; [|exact H].
    apply IH. exact H.
  Qed.

  Theorem graph_relabel ks toks : graph_of ks (relabel f toks) = graph_of ks toks.
  Proof.
    unfold graph_of, graph_base.
    assert (S0 : gsim ginit ginit) by (unfold gsim; cbn; repeat split; reflexivity).
    pose proof (grun_sim ks toks ginit ginit S0) as H.
    destruct (grun ks ginit toks) as [g1|e], (grun ks ginit (relabel f toks)) as [g1'|e']; try contradiction.
    - destruct H as [A [E [_ [_ [_ [_ [_ Z]]]]]]]. cbn [bind]. rewrite A, E, Z. reflexivity.
    - subst. reflexivity.
  Qed.
  (** for the texts: pysmiles builds the same graph from both writings *)
  Theorem parse_relabel ks toks : wf_smiles toks = true -> wf_smiles (relabel f toks) = true ->
    smiles_parse (render_smiles ks (relabel f toks)) = smiles_parse (render_smiles ks toks).
  Proof. intros W W'. rewrite (render_parse ks _ W'), (render_parse ks _ W). apply graph_relabel. Qed.
End Relabel.

(** an instance: write every one-digit marker d as %0d *)
Definition pct_of (m : pystr) : pystr := match m with [d] => ["%"%char; "0"%char; d] | _ => m end.
Lemma pct_of_val m : marker_val (pct_of m) = marker_val m.
Proof. destruct m as [|c [|d1 r]]; reflexivity. Qed.
Corollary graph_pct ks toks : graph_of ks (relabel pct_of toks) = graph_of ks toks.
Proof. apply (graph_relabel pct_of (fun z => z)); [apply pct_of_val|auto]. Qed.

(** non-vacuity: C1CC=2CC1C2 (bicyclic), the same with 1 -> %15 and 2 -> 7, and with %0d markers *)
Definition rl_toks := [TAtom (S "C"); TRing None (S "1"); TAtom (S "C"); TAtom (S "C"); TRing (Some BDouble) (S "2");
                       TAtom (S "C"); TAtom (S "C"); TRing None (S "1"); TAtom (S "C"); TRing None (S "2")].
Definition rl_f (m : pystr) : pystr := if str_eqb m (S "1") then S "%15" else if str_eqb m (S "2") then S "7" else m.
Lemma relabel_example :
  wf_smiles rl_toks = true /\ wf_smiles (relabel rl_f rl_toks) = true /\
  to_string (render_smiles true (relabel rl_f rl_toks)) = "C%15CC=7CC%15C7"%string /\
  (exists g, graph_of true rl_toks = Ok g /\ length (g_edges g) = 7) /\
  graph_of true (relabel rl_f rl_toks) = graph_of true rl_toks /\
  graph_of true (relabel pct_of rl_toks) = graph_of true rl_toks.
Proof.
  split; [vm_compute; reflexivity|]. split; [vm_compute; reflexivity|]. split; [vm_compute; reflexivity|].
  split; [eexists; split; [vm_compute; reflexivity|reflexivity]|]. split; vm_compute; reflexivity.
Qed.
