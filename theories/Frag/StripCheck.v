(** StripCheck: correspondence ([corr_ok]: the Impl models = what the implementation returned)
    and the executable oracle of property C13 ([prop_fail]: what the implementation returned versus
    [strip_spec]), both evaluated inside Coq on the cases the harness writes.  Imports only the
    model and the specification, never a proof file. *)
From Coq Require Import String.
From Coq Require Import List Ascii ZArith Bool.
From CGV Require Import Base.PyBase Base.PyVal Dialect.DialectImpl Frag.NDict Frag.StripImpl Frag.FragText Frag.FragTextX Frag.FragTextW Frag.SmilesParse Frag.Template Frag.TemplateFinal Frag.TemplateChiral.
Import ListNotations.

(** what the implementation did: the class name of the exception, or the four returned values *)
Inductive obs := OErr (cls : pystr) | ORes (r : result).

Definition err_name (e : err) : pystr :=
  match e with
  | ESyntax _ => S "SyntaxError" | EType => S "TypeError" | EIndex => S "IndexError" | EKey => S "KeyError"
  | EValue => S "ValueError" | EStopIter => S "StopIteration" | EUnbound => S "UnboundLocalError"
  | _ => S "?"
  end.

Definition ascii_eqb (a b : ascii) : bool := Ascii.eqb a b.
Definition result_eqb (a b : result) : bool :=
  let '(s1, d1, e1, a1) := a in let '(s2, d2, e2, a2) := b in
  str_eqb s1 s2 && nd_eqb strs_eqb d1 d2 && nd_eqb ascii_eqb e1 e2 && nd_eqb attrs_eqb a1 a2.

Definition ring_obs := (pystr * option ascii * pystr * ringdict)%type.   (* list(it), token, partial_str, rings *)
Fixpoint nats_eqb (a b : list nat) : bool :=
  match a, b with [], [] => true | x :: a', y :: b' => Nat.eqb x y && nats_eqb a' b' | _, _ => false end.
Fixpoint rings_eqb (a b : ringdict) : bool :=
  match a, b with
  | [], [] => true
  | (k, l) :: a', (k', l') :: b' => str_eqb k k' && nats_eqb l l' && rings_eqb a' b'
  | _, _ => false
  end.
Definition optc_eqb (a b : option ascii) : bool :=
  match a, b with Some x, Some y => Ascii.eqb x y | None, None => true | _, _ => false end.
Fixpoint pairs_eqb (a b : list (pystr * pystr)) : bool :=
  match a, b with
  | [], [] => true
  | (x, y) :: a', (x', y') :: b' => str_eqb x x' && str_eqb y y' && pairs_eqb a' b'
  | _, _ => false
  end.

(** pysmiles on a text: what base_smiles_parser returned, and the graph read_smiles holds when it
    reaches fill_valence (node attributes of parse_atom, bond orders) *)
Inductive sobs_base := SBErr (cls : pystr) | SBOk (b : base_obs).
Inductive sobs_full := SFErr (cls : pystr) | SFOk (nodes : list attrs) (edges : list (nat * nat * pyval)).
Definition bond_eqb (a b : bondstr) : bool := optc_eqb a b.
Definition same_pair (u v u' v' : nat) : bool := (Nat.eqb u u' && Nat.eqb v v') || (Nat.eqb u v' && Nat.eqb v u').
(** edge lists as sets of unordered pairs with a label *)
Definition edges_eqb {L} (leqb : L -> L -> bool) (a b : list (nat * nat * L)) : bool :=
  Nat.eqb (length a) (length b) &&
  forallb (fun e => let '(u, v, l) := e in existsb (fun e' => let '(u', v', l') := e' in same_pair u v u' v' && leqb l l') b) a.
Definition ezkeys_eqb (a b : list (option nat * ascii)) : bool :=
  Nat.eqb (length a) (length b) &&
  forallb (fun kv => existsb (fun kv' => okey_eqb (fst kv) (fst kv') && Ascii.eqb (snd kv) (snd kv')) b) a.
Fixpoint attrs_list_eqb (a b : list attrs) : bool :=
  match a, b with [], [] => true | x :: a', y :: b' => attrs_eqb x y && attrs_list_eqb a' b' | _, _ => false end.

(** the final template of fragment_iter against TemplateFinal.v + TemplateChiral.v: every node
    attribute (rs_isomer included: the neighbour tuple of pysmiles' stereo post-processing) except the
    parser's book-keeping keys _atom_str / _pos (dropped by the harness), and the bonds with their orders *)
Definition drop_keys (a : attrs) : attrs := a.
Definition tmpl_obs := (list (nat * attrs) * list (nat * nat * pyval))%type.
Definition template_agrees (T : tmpl) (o : tmpl_obs) : bool :=
  let '(nodes, edges) := o in
  let present := map fst nodes in
  let here (i : nat) := existsb (Nat.eqb i) present in
  forallb (fun ia => match nth_error (t_nodes T) (fst ia) with
                     | Some m => attrs_eqb (drop_keys m) (snd ia)
                     | None => false
                     end) nodes &&
  edges_eqb pyval_eqb (filter (fun e => let '(u, v, _) := e in here u && here v) (t_edges T)) edges.

Inductive case :=
| CTemplate (name text : pystr) (fo : list (pystr * option pystr)) (impl : option tmpl_obs)
| CTemplateChiralErr (name text : pystr) (fo : list (pystr * option pystr))   (* the library raised "Chiral node ... neighbors" *)
| CSmiles (text : pystr) (base : sobs_base) (full : sobs_full)
| CStrip (text : pystr) (fo : list (pystr * option pystr)) (judge : bool) (toks : list tok) (dc : decor) (impl : obs)
| CRing (rest : pystr) (token : ascii) (nc : nat) (impl : ring_obs)
| CSplit (text : pystr) (impl : list (pystr * pystr)).

Definition corr_ok (c : case) : bool :=
  match c with
  | CTemplate name text fo impl =>
      match impl with
      | None => true            (* the implementation raised after the modelled stage: no claim *)
      | Some o => match fragment_template_final_rs (fo_of_table fo) name text with Ok T => template_agrees T o | Err _ => false end
      end
  | CTemplateChiralErr name text fo =>
      (* pysmiles refused a chirality centre (not four neighbours): the model must not return a template *)
      match fragment_template_final_rs (fo_of_table fo) name text with Ok _ => false | Err _ => true end
  | CSmiles text base full =>
      (match base_smiles_parser text, base with
       | Ok (atoms, edges, ez), SBOk (atoms', edges', ez') =>
           strs_eqb atoms atoms' && edges_eqb bond_eqb edges edges' && ezkeys_eqb ez ez'
       | Err e, SBErr n => str_eqb (err_name e) n
       | _, _ => false
       end) &&
      (match smiles_parse text, full with
       | Ok g, SFOk nodes edges => attrs_list_eqb (g_nodes g) nodes && edges_eqb pyval_eqb (g_edges g) edges
       | Err e, SFErr n => str_eqb (err_name e) n
       | _, _ => false
       end)
  | CStrip text fo _ _ _ impl =>
      match strip_bonding_descriptors (fo_of_table fo) text, impl with
      | Ok r, ORes r' => result_eqb r r'
      | Err e, OErr n => str_eqb (err_name e) n
      | _, _ => false
      end
  | CRing rest token nc (irest, itok, ipart, irings) =>
      match collect_ring_number (pi_new rest) token nc [] with
      | Ok (it, tk, part, rings) =>
          str_eqb (pi_rest it) irest && optc_eqb tk itok && str_eqb part ipart && rings_eqb rings irings
      | Err _ => false
      end
  | CSplit text impl => pairs_eqb (fragment_split text) impl
  end.

(** 0 = the property holds on this case (or the case is not one of the property: malformed text,
    helper functions).  Otherwise clause + 10 * defect class of the input ([class_of]); 97/98 = the
    harness handed over an inconsistent case. *)
Definition clause (exp : sresult) (impl : obs) : nat :=
  match impl with
  | OErr _ => 9
  | ORes (s, d, e, a) =>
      let '(s', d', e', a') := exp in
      if negb (str_eqb s s') then 1
      else if negb (nd_eqb strs_eqb d d') then 2
      else if negb (nd_eqb ascii_eqb e e') then 3
      else if negb (nd_eqb attrs_eqb a a') then 4
      else 0
  end.
Definition prop_fail (c : case) : nat :=
  match c with
  | CStrip text fo true toks dc impl =>
      let items := decorate toks dc in
      if negb (str_eqb (render items) text) then 98
      else if negb (wfw toks dc) then 97
      else match strip_spec (fo_of_table fo) toks dc with
           | Err _ => 0                                   (* an annotation outside the dialect: not judged here (C14/C20) *)
           | Ok exp => match clause exp impl with 0 => 0 | n => n + 10 * class_of items end
           end
  | _ => 0
  end.
