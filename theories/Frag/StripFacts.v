(** StripFacts: concrete facts about the Impl model by computation: the refutation witness of the
    remaining defect class (inside the property's domain [wf]), the witnesses of the two repaired classes, non-vacuity examples. *)
From Coq Require Import String.
From Coq Require Import List Ascii ZArith Bool.
From CGV Require Import Base.PyBase Base.PyVal Dialect.DialectImpl Frag.NDict Frag.StripImpl Frag.FragText.
Import ListNotations.

Definition fo0 : float_oracle := fo_of_table [].
Definition mkd (k : ascii) (l : pystr) (s : option bsym) : desc := {| d_kind := k; d_label := l; d_sym := s |}.
Definition C_ := TAtom (S "C").

(** the statement of C13 for one input *)
Definition C13_at (fo : float_oracle) (toks : list tok) (dc : decor) : Prop :=
  strip_bonding_descriptors fo (render (decorate toks dc)) = strip_spec fo toks dc.

(** former class 1 (repaired in /repo by f3554b8): C=1[$]CC1 keeps its ring digit, the descriptor has order 1 *)
Definition w1_toks := [C_; TRing (Some BDouble) (S "1"); C_; C_; TRing None (S "1")].
Definition w1_dc := {| d_lead := []; d_after := [[]; [mkd "$" [] None]; []; []; []] |}.
Lemma fixed_ring : wf w1_toks w1_dc = true /\ excluded w1_toks w1_dc = false /\
  strip_bonding_descriptors fo0 (render (decorate w1_toks w1_dc)) = Ok (S "C=1CC1", [(0, [S "$1"])], [], []).
Proof. split; [vm_compute; reflexivity|]. split; vm_compute; reflexivity. Qed.
(** former class 2 (repaired in /repo by 0d0f450): C.[$] gives order 0 and the clean text C *)
Definition w2_toks := [C_].
Definition w2_dc := {| d_lead := []; d_after := [[mkd "$" [] (Some BZero)]] |}.
Lemma fixed_zero : wf w2_toks w2_dc = true /\ excluded w2_toks w2_dc = false /\
  strip_bonding_descriptors fo0 (render (decorate w2_toks w2_dc)) = Ok (S "C", [(0, [S "$0"])], [], []).
Proof. split; [vm_compute; reflexivity|]. split; vm_compute; reflexivity. Qed.
(** ':' as the order symbol of a descriptor is order 1.5: C:[$a]c and the leading [$]:c *)
Definition w4_toks := [C_; TAtom (S "c")].
Definition w4_dc := {| d_lead := []; d_after := [[mkd "$" (S "a") (Some BArom)]; []] |}.
Definition w5_toks := [TAtom (S "c")].
Definition w5_dc := {| d_lead := [mkd "$" [] (Some BArom)]; d_after := [[]] |}.
Lemma arom_order :
  wf w4_toks w4_dc = true /\ excluded w4_toks w4_dc = false /\ to_string (render (decorate w4_toks w4_dc)) = "C:[$a]c"%string /\
  strip_bonding_descriptors fo0 (render (decorate w4_toks w4_dc)) = Ok (S "Cc", [(0, [S "$a1.5"])], [], []) /\
  wf w5_toks w5_dc = true /\ to_string (render (decorate w5_toks w5_dc)) = "[$]:c"%string /\
  strip_bonding_descriptors fo0 (render (decorate w5_toks w5_dc)) = Ok (S "c", [(0, [S "$1.5"])], [], []).
Proof. repeat split; vm_compute; reflexivity. Qed.
(** class 3: [<][#PEO]|4[>] *)
Definition w3_toks := [TBracket (S "#PEO") None; TMult 4].
Definition w3_dc := {| d_lead := [mkd "<" [] None]; d_after := [[]; [mkd ">" [] None]] |}.
Lemma refuted_mult : wf w3_toks w3_dc = true /\ class_of (decorate w3_toks w3_dc) = 3 /\ ~ C13_at fo0 w3_toks w3_dc.
Proof. split; [vm_compute; reflexivity|]. split; [vm_compute; reflexivity|]. unfold C13_at. vm_compute. discriminate. Qed.

(** non-vacuity: a well-formed, non-excluded input with a leading descriptor, a branch, a ring
    marker with bond symbol, a two-letter element, a bracket atom, slash marks and descriptors with
    symbols:  [>]=C(/Cl)=1[$a]C[NH3+]#[<]C1=[!2][$]  *)
Definition nv_toks := [C_; TOpen; TSlash true; TAtom (S "Cl"); TClose; TRing (Some BDouble) (S "1"); C_;
                       TBracket (S "NH3+") None; C_; TRing None (S "1")].
Definition nv_dc := {| d_lead := [mkd ">" [] (Some BDouble)];
                       d_after := [[]; []; []; []; []; [mkd "$" (S "a") (Some BSingle)]; []; [mkd "<" [] (Some BTriple)]; [];
                                   [mkd "!" (S "2") (Some BDouble); mkd "$" [] None]] |}.
Lemma nonvacuous : wf nv_toks nv_dc = true /\ excluded nv_toks nv_dc = false /\
  strip_spec fo0 nv_toks nv_dc =
    Ok (S "C(Cl)=1C[NH3+]C1", [(0, [S ">2"; S "$a1"]); (3, [S "<3"]); (4, [S "!22"; S "$1"])],
        [(1, "/"%char); (0, "/"%char)], [(3, [(S "weight", VFlt (S "1.0"))])]).
Proof. split; [vm_compute; reflexivity|]. split; vm_compute; reflexivity. Qed.
