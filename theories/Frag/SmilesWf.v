(** SmilesWf: the rewritten texts of SmilesReroot / SmilesPerm* are well-formed when the original is, so
    the text-level theorems need [wf_smiles] of ONE of the two writings only.  [wf_end] runs the automaton
    of [wf_toks] and returns the zone and depth reached. *)
From Coq Require Import String.
From Coq Require Import List Ascii ZArith Bool Lia Permutation.
From CGV Require Import Base.PyBase Base.PyVal Gen.SmilesGen Frag.NDict Frag.FragText Frag.SmilesParse Frag.SmilesSpec
     Frag.SmilesProofs Frag.SmilesPerm Frag.SmilesReverse Frag.SmilesPermR Frag.SmilesPermX Frag.SmilesPermG Frag.SmilesReroot
     Frag.SmilesRewrite.
Import ListNotations.

Definition wf_step (zd : zone * nat) (t : tok) : option (zone * nat) :=
  let '(z, depth) := zd in
  if tok_smiles_ok t then
    match t with
    | TAtom _ | TBracket _ _ => Some (ZAtom, depth)
    | TBond _ | TSlash _ => match z with ZAtom | ZOpen => Some (ZBond, depth) | _ => None end
    | TOpen => if is_zatom z then Some (ZOpen, Datatypes.S depth) else None
    | TClose => if is_zatom z then match depth with O => None | Datatypes.S d => Some (ZAtom, d) end else None
    | TRing _ _ => if is_zatom z then Some (ZAtom, depth) else None
    | TMult _ => None
    end
  else None.
Fixpoint wf_end (zd : zone * nat) (toks : list tok) : option (zone * nat) :=
  match toks with
  | [] => Some zd
  | t :: r => match wf_step zd t with Some zd' => wf_end zd' r | None => None end
  end.
Definition final_ok (o : option (zone * nat)) : bool :=
  match o with Some (z, d) => is_zatom z && Nat.eqb d 0 | None => false end.
Lemma wf_toks_end : forall toks z d, wf_toks z d toks = final_ok (wf_end (z, d) toks).
Proof.
  induction toks as [|t r IH]; intros z d; [reflexivity|]. cbn [wf_toks wf_end wf_step].
  destruct (tok_smiles_ok t); [|reflexivity]. cbn [andb].
  destruct t; try (apply IH); try reflexivity.
  - destruct z; try reflexivity; apply IH.
  - destruct (is_zatom z); [apply IH|reflexivity].
  - destruct (is_zatom z); [|reflexivity]. destruct d; [reflexivity|apply IH].
  - destruct (is_zatom z); [apply IH|reflexivity].
  - destruct z; try reflexivity; apply IH.
Qed.
Lemma wf_end_app : forall a zd b, wf_end zd (a ++ b) = match wf_end zd a with Some zd' => wf_end zd' b | None => None end.
Proof. induction a as [|t r IH]; intros zd b; [reflexivity|]. cbn [app wf_end]. destruct (wf_step zd t); [apply IH|reflexivity]. Qed.

(** a parenthesised group that closes exactly at its end *)
Fixpoint closesb (k : nat) (toks : list tok) : bool :=
  match toks with
  | [] => false
  | TOpen :: r => closesb (Datatypes.S k) r
  | TClose :: r => match k with O => false | 1 => match r with [] => true | _ => false end | Datatypes.S k' => closesb k' r end
  | _ :: r => closesb k r
  end.
Definition groupb (p : list tok) : bool := match p with TOpen :: r => closesb 1 r | _ => false end.
Lemma blkz_closes : forall r z k, blkz z k r = true -> closesb k r = true.
Proof.
  induction r as [|t r IH]; intros z k H; [discriminate H|]. cbn [blkz] in H. destruct t; cbn [closesb]; try discriminate H.
  - apply (IH _ _ H).
  - apply (IH _ _ H).
  - destruct z; try discriminate H; apply (IH _ _ H).
  - apply andb_prop in H. destruct H as [_ H]. apply (IH _ _ H).
  - apply andb_prop in H. destruct H as [_ H]. destruct k as [|[|k]]; [discriminate H|exact H|apply (IH _ _ H)].
  - destruct z; try discriminate H; apply (IH _ _ H).
Qed.
Lemma rblkz_closes : forall r z k, rblkz z k r = true -> closesb k r = true.
Proof.
  induction r as [|t r IH]; intros z k H; [discriminate H|]. cbn [rblkz] in H. destruct t; cbn [closesb]; try discriminate H.
  - apply (IH _ _ H).
  - apply (IH _ _ H).
  - destruct z; try discriminate H; apply (IH _ _ H).
  - apply andb_prop in H. destruct H as [_ H]. apply (IH _ _ H).
  - apply andb_prop in H. destruct H as [_ H]. destruct k as [|[|k]]; [discriminate H|exact H|apply (IH _ _ H)].
  - apply andb_prop in H. destruct H as [_ H]. apply (IH _ _ H).
  - destruct z; try discriminate H; apply (IH _ _ H).
Qed.
Lemma is_block_group p : is_block p = true -> groupb p = true.
Proof. destruct p as [|t r]; [discriminate|]. destruct t; try discriminate. apply blkz_closes. Qed.
Lemma is_rblock_group p : is_rblock p = true -> groupb p = true.
Proof. destruct p as [|t r]; [discriminate|]. destruct t; try discriminate. apply rblkz_closes. Qed.

Lemma closes_end : forall r k z d zd', closesb k r = true -> k > 0 -> wf_end (z, k + d) r = Some zd' -> zd' = (ZAtom, d).
Proof.
  induction r as [|t r IH]; intros k z d zd' C K H; [discriminate C|]. cbn [wf_end wf_step] in H.
  destruct (tok_smiles_ok t); [|discriminate H].
  destruct t; cbn [closesb] in C.
  - apply (IH k _ d zd' C K H).
  - apply (IH k _ d zd' C K H).
  - destruct z; try discriminate H; apply (IH k _ d zd' C K H).
  - destruct (is_zatom z); [|discriminate H]. apply (IH (Datatypes.S k) _ d zd' C ltac:(lia) H).
  - destruct (is_zatom z); [|discriminate H]. destruct k as [|[|k]]; [lia| |].
    + destruct r; [|discriminate C]. cbn in H. inversion H. reflexivity.
    + cbn [Nat.add] in H. apply (IH (Datatypes.S k) _ d zd' C ltac:(lia) H).
  - destruct (is_zatom z); [|discriminate H]. apply (IH k _ d zd' C K H).
  - destruct z; try discriminate H; apply (IH k _ d zd' C K H).
  - discriminate H.
Qed.
Lemma group_end p z d zd' : groupb p = true -> wf_end (z, d) p = Some zd' -> z = ZAtom /\ zd' = (ZAtom, d).
Proof.
  destruct p as [|t r]; [discriminate|]. destruct t; try discriminate. cbn [groupb wf_end wf_step tok_smiles_ok]. intros C H.
  destruct z; try discriminate H. split; [reflexivity|]. apply (closes_end r 1 ZOpen d zd' C ltac:(lia) H).
Qed.

(** exchanging two adjacent groups *)
Theorem swap_wf x pa pb y : groupb pa = true -> groupb pb = true ->
  wf_smiles (x ++ pa ++ pb ++ y) = true -> wf_smiles (x ++ pb ++ pa ++ y) = true.
Proof.
  intros GA GB. unfold wf_smiles. rewrite !wf_toks_end, !wf_end_app.
  destruct (wf_end (ZStart, 0) x) as [[z0 d0]|]; [|exact (fun H => H)].
  rewrite !wf_end_app.
  destruct (wf_end (z0, d0) pa) as [zd1|] eqn:EA; [|intros X; discriminate X].
  destruct (group_end pa z0 d0 zd1 GA EA) as [-> ->].
  rewrite !wf_end_app.
  destruct (wf_end (ZAtom, d0) pb) as [zd2|] eqn:EB; [|intros X; discriminate X].
  destruct (group_end pb ZAtom d0 zd2 GB EB) as [_ ->]. rewrite !wf_end_app, EA. exact (fun H => H).
Qed.

(** the re-rooting step: [blocksb] groups keep zone and depth, at any base depth *)
Lemma blocks_end : forall P pend j z d zd', blocksb pend j P = true -> (j = 0 -> z = ZAtom) ->
  wf_end (z, j + d) P = Some zd' ->
  zd' = (ZAtom, d) /\ forall d', wf_end (z, j + d') P = Some (ZAtom, d').
Proof.
  induction P as [|t r IH]; intros pend j z d zd' B Z H.
  - cbn [blocksb] in B. apply andb_prop in B. destruct B as [_ B]. apply Nat.eqb_eq in B. subst j. rewrite (Z eq_refl) in *.
    cbn in H. inversion H. split; [reflexivity|intros d'; reflexivity].
  - cbn [wf_end wf_step] in H |- *. destruct (tok_smiles_ok t) eqn:OK; [|discriminate H].
    destruct t; cbn [blocksb] in B.
    + apply andb_prop in B. destruct B as [J B]. apply Nat.ltb_lt in J.
      destruct (IH false j ZAtom d zd' B ltac:(lia) H) as [Q1 Q2]. split; [exact Q1|]. intros d'. cbn [wf_end wf_step]. rewrite ?OK. apply Q2.
    + apply andb_prop in B. destruct B as [J B]. apply Nat.ltb_lt in J.
      destruct (IH false j ZAtom d zd' B ltac:(lia) H) as [Q1 Q2]. split; [exact Q1|]. intros d'. cbn [wf_end wf_step]. rewrite ?OK. apply Q2.
    + apply andb_prop in B. destruct B as [J B]. apply Nat.ltb_lt in J. destruct z; try discriminate H;
        (destruct (IH true j ZBond d zd' B ltac:(lia) H) as [Q1 Q2]; split; [exact Q1|]; intros d'; cbn [wf_end wf_step]; rewrite ?OK; apply Q2).
    + destruct (is_zatom z) eqn:EZ; [|discriminate H].
      destruct (IH pend (Datatypes.S j) ZOpen d zd' B ltac:(lia) H) as [Q1 Q2]. split; [exact Q1|]. intros d'. cbn [wf_end wf_step]. rewrite ?OK, ?EZ. apply (Q2 d').
    + apply andb_prop in B. destruct B as [_ B]. destruct j as [|j]; [discriminate B|]. destruct (is_zatom z) eqn:EZ; [|discriminate H].
      cbn [Nat.add] in H. destruct (IH false j ZAtom d zd' B ltac:(reflexivity) H) as [Q1 Q2]. split; [exact Q1|]. intros d'. cbn [wf_end wf_step Nat.add]. rewrite ?OK, ?EZ. apply Q2.
    + apply andb_prop in B. destruct B as [J B]. apply Nat.ltb_lt in J. destruct (is_zatom z) eqn:EZ; [|discriminate H].
      destruct (IH false j ZAtom d zd' B ltac:(lia) H) as [Q1 Q2]. split; [exact Q1|]. intros d'. cbn [wf_end wf_step]. rewrite ?OK, ?EZ. apply Q2.
    + apply andb_prop in B. destruct B as [J B]. apply Nat.ltb_lt in J. destruct z; try discriminate H;
        (destruct (IH pend j ZBond d zd' B ltac:(lia) H) as [Q1 Q2]; split; [exact Q1|]; intros d'; cbn [wf_end wf_step]; rewrite ?OK; apply Q2).
    + discriminate H.
Qed.
Theorem reroot_wf a P b x R : is_atomtok a = true -> is_atomtok x = true -> blocksb false 0 P = true ->
  wf_smiles (rr_src a P b x R) = true -> wf_smiles (rr_dst a P b x R) = true.
Proof.
  intros Aa Ax BP. unfold wf_smiles, rr_src, rr_dst. rewrite !wf_toks_end.
  assert (SA : forall zd, wf_step zd a = if tok_smiles_ok a then Some (ZAtom, snd zd) else None).
  { intros [z d]. destruct a; try discriminate Aa; reflexivity. }
  assert (SX : forall zd, wf_step zd x = if tok_smiles_ok x then Some (ZAtom, snd zd) else None).
  { intros [z d]. destruct x; try discriminate Ax; reflexivity. }
  cbn [wf_end]. rewrite SA, SX. cbn [snd]. destruct (tok_smiles_ok a) eqn:OA; [|intros X; cbn in X; discriminate X].
  rewrite wf_end_app. destruct (wf_end (ZAtom, 0) P) as [zdP|] eqn:EP; [|intros X; cbn in X; discriminate X].
  destruct (blocks_end P false 0 ZAtom 0 zdP BP (fun _ => eq_refl) EP) as [-> SH].
  rewrite wf_end_app.
  assert (BT : forall z, (z = ZAtom \/ z = ZOpen) -> forall d, wf_end (z, d) (bond_toks b) = Some (match b with Some _ => ZBond | None => z end, d)).
  { intros z Hz d. destruct b as [s|]; [|reflexivity]. cbn. destruct Hz as [-> | ->]; reflexivity. }
  rewrite (BT ZAtom (or_introl eq_refl) 0). cbn [wf_end]. rewrite SX. cbn [snd].
  destruct (tok_smiles_ok x) eqn:OX; [|intros X; cbn in X; discriminate X]. intros HR.
  cbn [wf_step tok_smiles_ok is_zatom]. rewrite wf_end_app, (BT ZOpen (or_intror eq_refl) 1). cbn [wf_end]. rewrite SA, ?OA. cbn [snd].
  pose proof (SH 1) as SH1. cbn [Nat.add] in SH1. rewrite wf_end_app, SH1. cbn [wf_end wf_step tok_smiles_ok is_zatom]. exact HR.
Qed.

(** the text-level theorems with well-formedness of one writing only *)
Theorem reroot_step_text1 a P b x R :
  wf_smiles (rr_src a P b x R) = true ->
  is_atomtok a = true -> is_atomtok x = true -> blocksb false 0 P = true ->
  let s := rot (Datatypes.S (count_atoms P)) in
  wf_smiles (rr_dst a P b x R) = true /\
  match smiles_parse (render_smiles false (rr_src a P b x R)), smiles_parse (render_smiles false (rr_dst a P b x R)) with
  | Ok G, Ok H => exists n, graph_uperm s n G H /\ sigma_ok s n
  | Err e, Err e' => e = e'
  | _, _ => False
  end.
Proof.
  intros W Aa Ax BP s. pose proof (reroot_wf a P b x R Aa Ax BP W) as W2. split; [exact W2|].
  apply (reroot_step_text a P b x R W W2 Aa Ax BP).
Qed.
Theorem gswap_branches_text1 x pa pb y g c :
  wf_smiles (x ++ pa ++ pb ++ y) = true ->
  grun false ginit x = Ok g -> q_cur g = Some c -> q_pend g = None ->
  is_rblock pa = true -> is_rblock pb = true -> disj pa pb ->
  let s := swap_sigma (q_n g) (count_atoms pa) (count_atoms pb) in
  wf_smiles (x ++ pb ++ pa ++ y) = true /\
  match smiles_parse (render_smiles false (x ++ pa ++ pb ++ y)), smiles_parse (render_smiles false (x ++ pb ++ pa ++ y)) with
  | Ok G, Ok H => exists n, graph_perm s n G H /\ sigma_ok s n
  | Err e, Err e' => e = e'
  | _, _ => False
  end.
Proof.
  intros W RX C P BA BB DJ s.
  pose proof (swap_wf x pa pb y (is_rblock_group pa BA) (is_rblock_group pb BB) W) as W2. split; [exact W2|].
  apply (gswap_branches_text x pa pb y g c W W2 RX C P BA BB DJ).
Qed.
Theorem swap_branches_text1 x pa pb y g c :
  wf_smiles (x ++ pa ++ pb ++ y) = true ->
  grun false ginit x = Ok g -> q_cur g = Some c -> q_pend g = None -> is_block pa = true -> is_block pb = true ->
  let s := swap_sigma (q_n g) (count_atoms pa) (count_atoms pb) in
  wf_smiles (x ++ pb ++ pa ++ y) = true /\
  match smiles_parse (render_smiles false (x ++ pa ++ pb ++ y)), smiles_parse (render_smiles false (x ++ pb ++ pa ++ y)) with
  | Ok G, Ok H => exists n, graph_perm s n G H
  | Err e, Err e' => e = e'
  | _, _ => False
  end.
Proof.
  intros W RX C P BA BB s.
  pose proof (swap_wf x pa pb y (is_block_group pa BA) (is_block_group pb BB) W) as W2. split; [exact W2|].
  apply (swap_branches_text x pa pb y g c W W2 RX C P BA BB).
Qed.
