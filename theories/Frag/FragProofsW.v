(** FragProofsW: [strip_correct] on the domain [wfw] = [wfx] plus the unbracketed wildcard atom `*`.
    The induction of FragProofsX.mainx with one more case (the wildcard: [item_star], [advance_first]).
    Header of FragProofsX: [strip_correct] on the domain extended by a bond symbol in front of "(" ([wfx]).
    Same induction as FragProofs.main with the per-item lemmas of FragProofs.v; the only change of
    the invariant: the pending order is None at the places where a descriptor may be written
    (before the first atom and after an atom), it may be Some after a bond symbol AND after the "("
    that follows it (the next atom clears it). *)
From Coq Require Import String.
From Coq Require Import List Ascii ZArith Bool Lia.
From CGV Require Import Base.PyBase Base.PyVal Gen.FragGen Dialect.DialectImpl Frag.NDict Frag.StripImpl Frag.FragText
     Frag.FragProofs Frag.FragTextX Frag.FragProofsX Frag.FragTextW.
Import ListNotations.


(** [advance] from the facts about the first character of the item (what [item_first] derives from [tok_ok]) *)
Lemma advance_first fo m sp co it r sp1 co1 :
  pend m -> flush m = top sp co ->
  (exists c s, render_item it = c :: s /\ char_in c lriga = false /\ (is_start_item it = true -> order_lookup c = None)) ->
  (is_start_item it = true \/ 1 <= s_n sp) ->
  item_res fo sp co it sp1 co1 ->
  exists m1, pend m1 /\ flush m1 = top sp1 co1 /\ whole fo m (render (it :: r)) = whole fo m1 (render r).
Proof.
  intros P F [c [s [E [L O]]]] Z [m1 [R [P1 F1]]]. exists m1. split; [assumption|]. split; [assumption|].
  unfold whole. cbn [render flat_map]. rewrite E in *.
  rewrite (enter fo m sp co c s _ P F).
  - rewrite R. reflexivity.
  - apply (no_combine m sp co c P F L). destruct Z as [Z|Z]; [left; auto|right; assumption].
Qed.
(** the wildcard atom: one character, counted as an atom like any other character of the catch-all branch *)
Lemma item_star fo sp co sp1 : spec_tok fo sp (TAtom (S "*")) = Ok sp1 -> item_res fo sp co (ITok (TAtom (S "*"))) sp1 None.
Proof. intros E. cbn in E. inversion E; subst sp1; clear E. eexists; split; [reflexivity|split; [exact I|reflexivity]]. Qed.

Lemma mainw fo : forall items z depth m sp co,
  pend m -> flush m = top sp co ->
  (z = ZStart -> s_n sp = 0) -> (z <> ZStart -> 1 <= s_n sp) -> (z = ZStart \/ z = ZAtom -> co = None) ->
  length (s_stack sp) = depth ->
  wfw_items z depth items = true -> has_mult items = false ->
  whole fo m (render items) = (sp' <- spec_run fo sp items ;; Ok (sres sp')).
Proof.
  induction items as [|it r IH]; intros z depth m sp co P F ZS ZN ZC D W HM.
  - unfold whole. cbn. rewrite (finish_pend m P), F. reflexivity.
  - assert (HM' : has_mult r = false).
    { unfold has_mult in *. cbn [existsb] in HM. apply orb_false_elim in HM. tauto. }
    destruct it as [d|t|d].
    + (* leading descriptor *)
      cbn [wfw_items] in W. destruct z; try discriminate W. apply andb_prop in W. destruct W as [Wd W].
      pose proof (ZS eq_refl) as N0. rewrite (ZC (or_introl eq_refl)) in *.
      destruct (advance fo m sp None (ILead d) r (spec_desc sp d) None P F Wd (or_introl eq_refl)
                  (item_lead fo sp d Wd N0)) as [m1 [P1 [F1 E]]].
      rewrite E. cbn [spec_run spec_item bind].
      apply (IH ZStart depth m1 (spec_desc sp d) None P1 F1); auto.
    + (* token *)
      cbn [wfw_items] in W. apply andb_prop in W. destruct W as [Wx W].
      assert (WT : tok_ok t = true \/ (tok_ok t = false /\ t = TAtom (S "*"))).
      { unfold tok_okx in Wx. destruct (tok_ok t) eqn:Et; [left; reflexivity|right]. split; [reflexivity|].
        cbn [orb] in Wx. destruct t; try discriminate Wx. cbn [is_star_atom] in Wx. apply str_eqb_eq in Wx. subst. reflexivity. }
      destruct WT as [Wt|[_ ->]].
      2:{ (* the wildcard atom *)
        destruct (advance_first fo m sp co (ITok (TAtom (S "*"))) r _ None P F
                    ltac:(eexists; eexists; split; [reflexivity|split; reflexivity]) (or_introl eq_refl)
                    (item_star fo sp co _ eq_refl)) as [m1 [P1 [F1 E]]].
        rewrite E. cbn [spec_run spec_item bind]. cbn [spec_tok bind].
        apply (IH ZAtom depth m1 _ None P1 F1); auto; try zne. intros _. cbn. lia. }
      destruct t as [e|body annot|b| | |b mk_|f|n].
      * (* atom *)
        destruct (item_atom fo sp co e _ Wt eq_refl) as [m0 R0].
        destruct (advance fo m sp co (ITok (TAtom e)) r _ None P F Wt (or_introl eq_refl) (ex_intro _ m0 R0)) as [m1 [P1 [F1 E]]].
        rewrite E. cbn [spec_run spec_item bind]. cbn [spec_tok bind].
        apply (IH ZAtom depth m1 _ None P1 F1); auto; try zne. intros _. cbn. lia.
      * (* bracket atom *)
        cbn [tok_ok] in Wt. apply andb_prop in Wt. destruct Wt as [Wb Wa].
        pose proof (item_bracket fo sp co body annot Wb Wa) as IB.
        assert (Wt : item_tok_ok (ITok (TBracket body annot)) = true) by (cbn [item_tok_ok tok_ok]; rewrite Wb, Wa; reflexivity).
        cbn [spec_run spec_item].
        destruct (spec_tok fo sp (TBracket body annot)) as [sp1|e] eqn:Es.
        -- destruct (advance fo m sp co (ITok (TBracket body annot)) r sp1 None P F Wt (or_introl eq_refl) IB) as [m1 [P1 [F1 E]]].
           rewrite E. cbn [bind].
           assert (N1 : 1 <= s_n sp1 /\ length (s_stack sp1) = depth).
           { cbn [spec_tok] in Es. destruct (fragment_node_parser fo match annot with Some x => x | None => [] end);
               cbn [bind] in Es; inversion Es. cbn. split; [lia|assumption]. }
           destruct N1 as [N1 D1].
           apply (IH ZAtom depth m1 sp1 None P1 F1); auto; try zne.
        -- cbn [bind]. apply (advance_err fo m sp co _ r e P F Wt (or_introl eq_refl) IB).
      * (* bond *)
        assert (N : 1 <= s_n sp) by (apply ZN; destruct z; try discriminate W; zne).
        destruct (advance fo m sp co (ITok (TBond b)) r _ _ P F Wt (or_intror N) (item_bond fo sp co b _ eq_refl)) as [m1 [P1 [F1 E]]].
        rewrite E. cbn [spec_run spec_item spec_tok bind].
        assert (W' : wfw_items ZBond depth r = true) by (destruct z; try discriminate W; exact W).
        apply (IH ZBond depth m1 _ _ P1 F1); auto; try zne; try zvac.
      * (* open: after an atom or after a bond symbol *)
        apply andb_prop in W. destruct W as [Wz W].
        assert (N : 1 <= s_n sp) by (apply ZN; destruct z; try discriminate Wz; zne).
        destruct (advance fo m sp co (ITok TOpen) r _ _ P F Wt (or_intror N) (item_open fo sp co _ eq_refl)) as [m1 [P1 [F1 E]]].
        rewrite E. cbn [spec_run spec_item spec_tok bind].
        apply (IH ZOpen (Datatypes.S depth) m1 _ _ P1 F1); auto; try zne; try zvac.
        cbn. rewrite D. reflexivity.
      * (* close *)
        apply andb_prop in W. destruct W as [Wz W]. destruct z; try discriminate Wz.
        destruct depth as [|dep]; [discriminate W|].
        assert (N : 1 <= s_n sp) by (apply ZN; zne).
        assert (NE : s_stack sp <> []) by (intros X; rewrite X in D; discriminate D).
        destruct (advance fo m sp co (ITok TClose) r _ _ P F Wt (or_intror N) (item_close fo sp co _ NE eq_refl)) as [m1 [P1 [F1 E]]].
        rewrite E. cbn [spec_run spec_item spec_tok bind].
        apply (IH ZAtom dep m1 _ _ P1 F1); auto; try zne.
        cbn. destruct (s_stack sp); [contradiction|]. cbn in D. cbn. lia.
      * (* ring marker *)
        apply andb_prop in W. destruct W as [Wz W]. destruct z; try discriminate Wz.
        assert (N : 1 <= s_n sp) by (apply ZN; zne).
        destruct (advance fo m sp co (ITok (TRing b mk_)) r _ _ P F Wt (or_intror N) (item_ring fo sp co b mk_ _ Wt eq_refl)) as [m1 [P1 [F1 E]]].
        rewrite E. cbn [spec_run spec_item spec_tok bind].
        apply (IH ZAtom depth m1 _ None P1 F1); auto; try zne.
      * (* slash *)
        assert (N : 1 <= s_n sp) by (apply ZN; destruct z; try discriminate W; zne).
        destruct (advance fo m sp co (ITok (TSlash f)) r _ _ P F Wt (or_intror N) (item_slash fo sp co f _ eq_refl)) as [m1 [P1 [F1 E]]].
        rewrite E. cbn [spec_run spec_item spec_tok bind].
        assert (W' : wfw_items ZBond depth r = true) by (destruct z; try discriminate W; exact W).
        apply (IH ZBond depth m1 _ _ P1 F1); auto; try zne; try zvac.
      * (* multiplier: excluded *)
        discriminate HM.
    + (* descriptor after an atom *)
      cbn [wfw_items] in W. apply andb_prop in W. destruct W as [W Wr]. apply andb_prop in W. destruct W as [Wz Wd].
      destruct z; try discriminate Wz.
      assert (N : 1 <= s_n sp) by (apply ZN; zne).
      rewrite (ZC (or_intror eq_refl)) in *.
      destruct (advance fo m sp None (IDesc d) r _ _ P F Wd (or_intror N) (item_desc fo sp d Wd)) as [m1 [P1 [F1 E]]].
      rewrite E. cbn [spec_run spec_item bind].
      apply (IH ZAtom depth m1 _ None P1 F1); auto; try zne.
Qed.

Theorem strip_correct_w fo toks dc : wfw toks dc = true -> excluded toks dc = false ->
  strip_bonding_descriptors fo (render (decorate toks dc)) = strip_spec fo toks dc.
Proof.
  intros W X. unfold wfw in W. apply andb_prop in W. destruct W as [_ W].
  unfold excluded, excluded_items, class_of in X.
  destruct (has_mult (decorate toks dc)) eqn:HM; [discriminate X|].
  unfold strip_bonding_descriptors, strip_spec, spec_items. rewrite init_top.
  change (m <- run fo (top sinit None) (render (decorate toks dc));; finish m)
    with (whole fo (top sinit None) (render (decorate toks dc))).
  apply (mainw fo (decorate toks dc) ZStart 0 (top sinit None) sinit None); auto.
  - exact I.
  - intros H; contradiction.
Qed.

(** non-vacuity: the wildcard between two atoms, and at the start and inside a branch (texts below) *)
Definition st_toks1 := [TAtom (S "C"); TAtom (S "*"); TAtom (S "C")].
Definition st_dollar := {| d_kind := "$"%char; d_label := []; d_sym := None |}.
Definition st_dc1 := {| d_lead := [st_dollar]; d_after := [[]; []; [st_dollar]] |}.
Definition st_toks2 := [TAtom (S "*"); TAtom (S "C"); TOpen; TAtom (S "*"); TClose; TAtom (S "Cl")].
Definition st_dc2 := {| d_lead := []; d_after := [[{| d_kind := "$"%char; d_label := S "a"; d_sym := None |}]; []; [];
                                                  [{| d_kind := ">"%char; d_label := []; d_sym := Some BDouble |}]; [];
                                                  [{| d_kind := "<"%char; d_label := S "x"; d_sym := None |}]] |}.
Lemma wildcard_example :
  wfx st_toks1 st_dc1 = false /\ wfw st_toks1 st_dc1 = true /\ excluded st_toks1 st_dc1 = false /\
  to_string (render (decorate st_toks1 st_dc1)) = "[$]C*C[$]"%string /\
  (exists a, strip_spec (fo_of_table []) st_toks1 st_dc1 = Ok (S "C*C", [(0, [S "$1"]); (2, [S "$1"])], [], a)) /\
  wfw st_toks2 st_dc2 = true /\ to_string (render (decorate st_toks2 st_dc2)) = "*[$a]C(*=[>])Cl[<x]"%string /\
  (exists a, strip_spec (fo_of_table []) st_toks2 st_dc2 = Ok (S "*C(*)Cl", [(0, [S "$a1"]); (2, [S ">2"]); (3, [S "<x1"])], [], a)).
Proof. repeat split; try (vm_compute; reflexivity); eexists; vm_compute; reflexivity. Qed.
