(** SmilesTree: the writings of ring-free fragments ("tree texts") and totality of [descend] on them.
    A tail is empty or  [b] x G1 ... Gk T  (optional bond symbol, an atom, its branches, the rest); a branch is
    "(" U ")" with U a non-empty tail; a tree text is  a G1 ... Gk T .  On a tree text every re-rooting step
    ([reroot1] when the tail is not empty, [descend i] for every branch i of the first atom) succeeds and returns
    a tree text again, so [descend_path] reaches every atom: from the first atom every atom is found by a path of
    such choices, and the graphs are related by the returned permutation (SmilesDescend). *)
From Coq Require Import String.
From Coq Require Import List Ascii ZArith Bool Lia Permutation.
From CGV Require Import Base.PyBase Base.PyVal Gen.SmilesGen Frag.NDict Frag.FragText Frag.SmilesParse Frag.SmilesSpec
     Frag.SmilesProofs Frag.SmilesPerm Frag.SmilesReverse Frag.SmilesPermR Frag.SmilesPermX Frag.SmilesPermG Frag.SmilesReroot
     Frag.SmilesRewrite Frag.SmilesWf Frag.SmilesDescend.
Import ListNotations.

Definition grp (U : list tok) : list tok := TOpen :: U ++ [TClose].
Fixpoint ttn (n : nat) (T : list tok) : Prop :=
  match n with
  | O => T = []
  | Datatypes.S n' =>
      T = [] \/ exists b x gs T', is_atomtok x = true /\
        (forall g, In g gs -> exists U, g = grp U /\ U <> [] /\ ttn n' U) /\ ttn n' T' /\
        T = bond_toks b ++ x :: concat gs ++ T'
  end.
Definition tt (T : list tok) : Prop := exists n, ttn n T.
Definition is_group (g : list tok) : Prop := exists U, g = grp U /\ U <> [] /\ tt U.
Definition groups (gs : list (list tok)) : Prop := forall g, In g gs -> is_group g.
Definition tree_text (w : list tok) : Prop :=
  exists a gs T, is_atomtok a = true /\ groups gs /\ tt T /\ w = a :: concat gs ++ T.

Lemma ttn_mono : forall n T, ttn n T -> ttn (Datatypes.S n) T.
Proof.
  induction n as [|n IH]; intros T H.
  - cbn in H. subst. left. reflexivity.
  - destruct H as [->|[b [x [gs [T' [Ax [HG [HT ->]]]]]]]]; [left; reflexivity|]. right. exists b, x, gs, T'.
    split; [exact Ax|]. split; [|split; [apply IH; exact HT|reflexivity]].
    intros g IN. destruct (HG g IN) as [U [-> [NE HU]]]. exists U. split; [reflexivity|]. split; [exact NE|apply IH; exact HU].
Qed.
Lemma ttn_le n m T : n <= m -> ttn n T -> ttn m T.
Proof. intros L. induction L; [auto|]. intros H. apply ttn_mono. auto. Qed.
Lemma tt_nil : tt [].
Proof. exists 0. reflexivity. Qed.
(** all groups of a list at one height *)
Lemma groups_height gs : groups gs -> exists n, forall g, In g gs -> exists U, g = grp U /\ U <> [] /\ ttn n U.
Proof.
  induction gs as [|g r IH]; intros H; [exists 0; intros g []|].
  destruct (IH (fun g' IN => H g' (or_intror IN))) as [n Hn]. destruct (H g (or_introl eq_refl)) as [U [-> [NE [m HU]]]].
  exists (Nat.max n m). intros g' [<-|IN].
  - exists U. split; [reflexivity|]. split; [exact NE|apply (ttn_le m); [lia|exact HU]].
  - destruct (Hn g' IN) as [U' [-> [NE' HU']]]. exists U'. split; [reflexivity|]. split; [exact NE'|apply (ttn_le n); [lia|exact HU']].
Qed.
Lemma tt_cons b x gs T : is_atomtok x = true -> groups gs -> tt T -> tt (bond_toks b ++ x :: concat gs ++ T).
Proof.
  intros Ax HG [m HT]. destruct (groups_height gs HG) as [n Hn]. exists (Datatypes.S (Nat.max n m)). right. exists b, x, gs, T.
  split; [exact Ax|]. split; [|split; [apply (ttn_le m); [lia|exact HT]|reflexivity]].
  intros g IN. destruct (Hn g IN) as [U [-> [NE HU]]]. exists U. split; [reflexivity|]. split; [exact NE|apply (ttn_le n); [lia|exact HU]].
Qed.

(** induction over tails: the empty tail; an atom with its groups (the property holds inside every group) and the rest *)
Lemma tt_ind (Q : list tok -> Prop) : Q [] ->
  (forall b x gs T', is_atomtok x = true ->
     (forall g, In g gs -> exists U, g = grp U /\ U <> [] /\ tt U /\ Q U) -> tt T' -> Q T' ->
     Q (bond_toks b ++ x :: concat gs ++ T')) ->
  forall T, tt T -> Q T.
Proof.
  intros Q0 QS T [n H]. revert T H. induction n as [|n IH]; intros T H.
  - cbn in H. subst. exact Q0.
  - destruct H as [->|[b [x [gs [T' [Ax [HG [HT ->]]]]]]]]; [exact Q0|]. apply QS; [exact Ax| |exists n; exact HT|apply IH; exact HT].
    intros g IN. destruct (HG g IN) as [U [-> [NE HU]]]. exists U. split; [reflexivity|]. split; [exact NE|]. split; [exists n; exact HU|apply IH; exact HU].
Qed.
Lemma tt_shape T : tt T -> T = [] \/ exists b x gs T', is_atomtok x = true /\ groups gs /\ tt T' /\ T = bond_toks b ++ x :: concat gs ++ T'.
Proof.
  intros [n H]. destruct n as [|n]; [left; exact H|]. destruct H as [->|[b [x [gs [T' [Ax [HG [HT ->]]]]]]]]; [left; reflexivity|].
  right. exists b, x, gs, T'. split; [exact Ax|]. split; [|split; [exists n; exact HT|reflexivity]].
  intros g IN. destruct (HG g IN) as [U [-> [NE HU]]]. exists U. split; [reflexivity|]. split; [exact NE|exists n; exact HU].
Qed.
Lemma atom_not_paren x : is_atomtok x = true -> x <> TOpen /\ x <> TClose.
Proof. destruct x; try discriminate; split; discriminate. Qed.

(** * what the scanners do on a tail that is followed by [rest] *)
Lemma tail_unfold b x gs (T' rest : list tok) :
  (bond_toks b ++ x :: concat gs ++ T') ++ rest = bond_toks b ++ x :: concat gs ++ T' ++ rest.
Proof. rewrite <- app_assoc. cbn [app]. rewrite <- app_assoc. reflexivity. Qed.
(** [rblkz]: after a non-empty tail the zone is ZAtom, the depth unchanged *)
Lemma rblkz_tail T : tt T -> T <> [] -> forall k z rest, k > 0 -> (z = ZAtom \/ z = ZOpen) ->
  rblkz z k (T ++ rest) = rblkz ZAtom k rest.
Proof.
  intros H. pattern T. revert T H. apply tt_ind; [intros X; contradiction|].
  intros b x gs T' Ax HG HT IHT _ k z rest K Z.
  assert (GS : forall rest', rblkz ZAtom k (concat gs ++ rest') = rblkz ZAtom k rest').
  { clear - HG K. induction gs as [|g r IH]; intros rest'; [reflexivity|]. cbn [concat]. rewrite <- app_assoc.
    destruct (HG g (or_introl eq_refl)) as [U [-> [NE [_ QU]]]]. unfold grp. cbn [app rblkz is_zatom andb]. rewrite <- app_assoc.
    rewrite (QU NE (Datatypes.S k) ZOpen _ ltac:(lia) (or_intror eq_refl)). cbn [app rblkz is_zatom andb].
    destruct k as [|k']; [lia|]. apply IH. intros g' IN. apply HG. right. exact IN. }
  assert (TL : forall rest', rblkz ZAtom k (T' ++ rest') = rblkz ZAtom k rest').
  { intros rest'. destruct T' as [|t0 T0]; [reflexivity|]. apply IHT; [discriminate|exact K|left; reflexivity]. }
  assert (XA : forall z' r, rblkz z' k (x :: r) = rblkz ZAtom k r) by (intros z' r; destruct x; try discriminate Ax; reflexivity).
  rewrite tail_unfold. destruct b as [s|]; cbn [bond_toks app].
  - assert (BD : rblkz z k (TBond s :: x :: concat gs ++ T' ++ rest) = rblkz ZBond k (x :: concat gs ++ T' ++ rest)) by (destruct Z as [-> | ->]; reflexivity).
    rewrite BD, XA, GS, TL. reflexivity.
  - rewrite XA, GS, TL. reflexivity.
Qed.
Lemma group_is_rblock g : is_group g -> is_rblock g = true.
Proof.
  intros [U [-> [NE HU]]]. unfold grp, is_rblock. rewrite (rblkz_tail U HU NE 1 ZOpen [TClose] ltac:(lia) (or_intror eq_refl)). reflexivity.
Qed.

(** [nonnegb] *)
Lemma nonnegb_tail T : tt T -> forall k rest, nonnegb k (T ++ rest) = nonnegb k rest.
Proof.
  intros H. pattern T. revert T H. apply tt_ind; [reflexivity|].
  intros b x gs T' Ax HG HT IHT k rest.
  assert (GS : forall k rest', nonnegb k (concat gs ++ rest') = nonnegb k rest').
  { clear - HG. induction gs as [|g r IH]; intros k rest'; [reflexivity|]. cbn [concat]. rewrite <- app_assoc.
    destruct (HG g (or_introl eq_refl)) as [U [-> [NE [_ QU]]]]. unfold grp. cbn [app nonnegb]. rewrite <- app_assoc, QU. cbn [app nonnegb].
    apply IH. intros g' IN. apply HG. right. exact IN. }
  assert (XA : forall r, nonnegb k (x :: r) = nonnegb k r) by (intros r; destruct x; try discriminate Ax; reflexivity).
  rewrite tail_unfold. destruct b as [s|]; cbn [bond_toks app].
  - change (nonnegb k (TBond s :: x :: concat gs ++ T' ++ rest)) with (nonnegb k (x :: concat gs ++ T' ++ rest)). rewrite XA, GS, IHT. reflexivity.
  - rewrite XA, GS, IHT. reflexivity.
Qed.

(** [blocksb]: after a non-empty tail no bond symbol is pending *)
Lemma blocksb_tail T : tt T -> T <> [] -> forall pend k rest, k > 0 -> blocksb pend k (T ++ rest) = blocksb false k rest.
Proof.
  intros H. pattern T. revert T H. apply tt_ind; [intros X; contradiction|].
  intros b x gs T' Ax HG HT IHT _ pend k rest K.
  assert (K' : (0 <? k) = true) by (apply Nat.ltb_lt; exact K).
  assert (GS : forall rest', blocksb false k (concat gs ++ rest') = blocksb false k rest').
  { clear - HG K. induction gs as [|g r IH]; intros rest'; [reflexivity|]. cbn [concat]. rewrite <- app_assoc.
    destruct (HG g (or_introl eq_refl)) as [U [-> [NE [_ QU]]]]. unfold grp. cbn [app blocksb]. rewrite <- app_assoc.
    rewrite (QU NE false (Datatypes.S k) _ ltac:(lia)). cbn [app blocksb negb andb].
    apply IH. intros g' IN. apply HG. right. exact IN. }
  assert (TL : forall rest', blocksb false k (T' ++ rest') = blocksb false k rest').
  { intros rest'. destruct T' as [|t0 T0]; [reflexivity|]. apply IHT; [discriminate|exact K]. }
  assert (XA : forall p r, blocksb p k (x :: r) = blocksb false k r).
  { intros p r. destruct x; try discriminate Ax; cbn [blocksb]; rewrite K'; reflexivity. }
  rewrite tail_unfold. destruct b as [s|]; cbn [bond_toks app].
  - assert (BD : blocksb pend k (TBond s :: x :: concat gs ++ T' ++ rest) = blocksb true k (x :: concat gs ++ T' ++ rest)).
    { change (blocksb pend k (TBond s :: x :: concat gs ++ T' ++ rest)) with ((0 <? k) && blocksb true k (x :: concat gs ++ T' ++ rest)). rewrite K'. reflexivity. }
    rewrite BD, XA, GS, TL. reflexivity.
  - rewrite XA, GS, TL. reflexivity.
Qed.
Lemma blocksb_groups gs : groups gs -> forall rest, blocksb false 0 (concat gs ++ rest) = blocksb false 0 rest.
Proof.
  induction gs as [|g r IH]; intros HG rest; [reflexivity|]. cbn [concat]. rewrite <- app_assoc.
  destruct (HG g (or_introl eq_refl)) as [U [-> [NE HU]]]. unfold grp. cbn [app blocksb]. rewrite <- app_assoc.
  rewrite (blocksb_tail U HU NE false 1 _ ltac:(lia)). cbn [app blocksb negb andb]. apply IH. intros g' IN. apply HG. right. exact IN.
Qed.

(** [take_blocks] *)
Lemma tb_tok t k r p q : k > 0 -> t <> TOpen -> t <> TClose -> take_blocks k r = (p, q) -> take_blocks k (t :: r) = (t :: p, q).
Proof. intros K NO NC E. destruct k as [|k']; [lia|]. destruct t; try contradiction; cbn [take_blocks]; rewrite E; reflexivity. Qed.
Lemma tb_open k r p q : take_blocks (Datatypes.S k) r = (p, q) -> take_blocks k (TOpen :: r) = (TOpen :: p, q).
Proof. intros E. cbn [take_blocks]. rewrite E. destruct k; reflexivity. Qed.
Lemma tb_close k r p q : take_blocks k r = (p, q) -> take_blocks (Datatypes.S k) (TClose :: r) = (TClose :: p, q).
Proof. intros E. cbn [take_blocks]. rewrite E. reflexivity. Qed.
Lemma take_blocks_tail T : tt T -> forall k rest p q, k > 0 -> take_blocks k rest = (p, q) -> take_blocks k (T ++ rest) = (T ++ p, q).
Proof.
  intros H. pattern T. revert T H. apply tt_ind; [intros k rest p q _ E; exact E|].
  intros b x gs T' Ax HG HT IHT k rest p q K E.
  assert (GS : forall k rest' p' q', take_blocks k rest' = (p', q') -> take_blocks k (concat gs ++ rest') = (concat gs ++ p', q')).
  { clear - HG. induction gs as [|g r IH]; intros k rest' p' q' E'; [exact E'|]. cbn [concat]. rewrite <- !app_assoc.
    destruct (HG g (or_introl eq_refl)) as [U [-> [NE [_ QU]]]]. unfold grp. cbn [app]. rewrite <- !app_assoc. cbn [app].
    apply tb_open. apply (QU (Datatypes.S k) _ (TClose :: concat r ++ p') q' ltac:(lia)). apply tb_close.
    apply IH; [|exact E']. intros g' IN. apply HG. right. exact IN. }
  destruct (atom_not_paren x Ax) as [NO NC].
  assert (R1 : take_blocks k (x :: concat gs ++ T' ++ rest) = (x :: concat gs ++ T' ++ p, q)).
  { apply (tb_tok x k _ _ q K NO NC). apply GS. apply (IHT k rest p q K E). }
  rewrite !tail_unfold. destruct b as [s|]; cbn [bond_toks app].
  - apply (tb_tok (TBond s) k _ _ q K ltac:(discriminate) ltac:(discriminate)). exact R1.
  - exact R1.
Qed.
Lemma take_blocks_groups gs : groups gs -> forall rest p q, take_blocks 0 rest = (p, q) -> take_blocks 0 (concat gs ++ rest) = (concat gs ++ p, q).
Proof.
  induction gs as [|g r IH]; intros HG rest p q E; [exact E|]. cbn [concat]. rewrite <- !app_assoc.
  destruct (HG g (or_introl eq_refl)) as [U [-> [NE HU]]]. unfold grp. cbn [app]. rewrite <- !app_assoc. cbn [app].
  apply tb_open. apply (take_blocks_tail U HU 1 _ (TClose :: concat r ++ p) q ltac:(lia)). apply tb_close.
  apply IH; [|exact E]. intros g' IN. apply HG. right. exact IN.
Qed.
Lemma take_blocks_of_tail T : tt T -> take_blocks 0 T = ([], T).
Proof.
  intros H. destruct (tt_shape T H) as [->|[b [x [gs [T' [Ax [_ [_ ->]]]]]]]]; [reflexivity|].
  destruct b as [s|]; cbn [bond_toks app]; [reflexivity|]. destruct x; try discriminate Ax; reflexivity.
Qed.
Lemma take_blocks_tree gs T : groups gs -> tt T -> take_blocks 0 (concat gs ++ T) = (concat gs, T).
Proof. intros HG HT. rewrite (take_blocks_groups gs HG T [] T (take_blocks_of_tail T HT)), app_nil_r. reflexivity. Qed.

(** [split_groups] *)
Ltac revnorm := cbn [rev]; rewrite ?rev_app_distr; cbn [rev app]; rewrite <- ?app_assoc; cbn [app]; rewrite ?rev_app_distr; cbn [rev app];
  rewrite <- ?app_assoc; cbn [app]; reflexivity.
Lemma sg_tok t k cur r : k > 0 -> t <> TOpen -> t <> TClose -> split_groups k cur (t :: r) = split_groups k (t :: cur) r.
Proof. intros K NO NC. destruct k as [|k']; [lia|]. destruct t; try contradiction; reflexivity. Qed.
Lemma split_groups_tail T : tt T -> forall k cur rest, k > 0 -> split_groups k cur (T ++ rest) = split_groups k (rev T ++ cur) rest.
Proof.
  intros H. pattern T. revert T H. apply tt_ind; [reflexivity|].
  intros b x gs T' Ax HG HT IHT k cur rest K.
  assert (GS : forall cur' rest', split_groups k cur' (concat gs ++ rest') = split_groups k (rev (concat gs) ++ cur') rest').
  { clear - HG K. induction gs as [|g r IH]; intros cur' rest'; [reflexivity|]. cbn [concat]. rewrite <- app_assoc.
    destruct (HG g (or_introl eq_refl)) as [U [-> [NE [_ QU]]]]. unfold grp. cbn [app]. rewrite <- app_assoc.
    assert (O1 : split_groups k cur' (TOpen :: U ++ ([TClose] ++ concat r ++ rest')) = split_groups (Datatypes.S k) (TOpen :: cur') (U ++ TClose :: concat r ++ rest')).
    { destruct k; reflexivity. }
    rewrite O1, (QU (Datatypes.S k) _ _ ltac:(lia)).
    assert (C1 : forall c', split_groups (Datatypes.S k) c' (TClose :: concat r ++ rest') = split_groups k (TClose :: c') (concat r ++ rest')).
    { intros c'. destruct k as [|k']; [lia|]. reflexivity. }
    rewrite C1, IH by (intros g' IN; apply HG; right; exact IN). f_equal.
    revnorm. }
  destruct (atom_not_paren x Ax) as [NO NC].
  rewrite tail_unfold. destruct b as [s|]; cbn [bond_toks app].
  - rewrite (sg_tok (TBond s) k _ _ K ltac:(discriminate) ltac:(discriminate)), (sg_tok x k _ _ K NO NC), GS, IHT by exact K. f_equal.
    revnorm.
  - rewrite (sg_tok x k _ _ K NO NC), GS, IHT by exact K. f_equal.
    revnorm.
Qed.
Lemma split_groups_groups gs : groups gs -> forall rest, split_groups 0 [] (concat gs ++ rest) = gs ++ split_groups 0 [] rest.
Proof.
  induction gs as [|g r IH]; intros HG rest; [reflexivity|]. cbn [concat]. rewrite <- app_assoc.
  destruct (HG g (or_introl eq_refl)) as [U [-> [NE HU]]]. unfold grp. cbn [app]. rewrite <- app_assoc.
  change (split_groups 0 [] (TOpen :: U ++ [TClose] ++ concat r ++ rest)) with (split_groups 1 [TOpen] (U ++ TClose :: concat r ++ rest)).
  rewrite (split_groups_tail U HU 1 _ _ ltac:(lia)).
  change (split_groups 1 (rev U ++ [TOpen]) (TClose :: concat r ++ rest)) with (rev (TClose :: rev U ++ [TOpen]) :: split_groups 0 [] (concat r ++ rest)).
  rewrite IH by (intros g' IN; apply HG; right; exact IN). cbn [app]. f_equal.
  cbn [rev]. rewrite rev_app_distr, rev_involutive. reflexivity.
Qed.
Lemma split_groups_tree gs : groups gs -> split_groups 0 [] (concat gs) = gs.
Proof. intros HG. rewrite <- (app_nil_r (concat gs)), (split_groups_groups gs HG []). cbn. apply app_nil_r. Qed.

(** no ring-bond markers: every run succeeds, no ring numbers *)
Definition plain_tok (t : tok) : bool := match t with TRing _ _ | TSlash _ | TMult _ => false | _ => true end.
Lemma tail_plain T : tt T -> forallb plain_tok T = true.
Proof.
  intros H. pattern T. revert T H. apply tt_ind; [reflexivity|].
  intros b x gs T' Ax HG HT IHT. rewrite forallb_app. cbn [forallb]. rewrite forallb_app, IHT.
  assert (GS : forallb plain_tok (concat gs) = true).
  { clear - HG. induction gs as [|g r IH]; [reflexivity|]. cbn [concat]. rewrite forallb_app, IH by (intros g' IN; apply HG; right; exact IN).
    destruct (HG g (or_introl eq_refl)) as [U [-> [_ [_ QU]]]]. unfold grp. cbn [forallb plain_tok]. rewrite forallb_app, QU. reflexivity. }
  rewrite GS. destruct b; destruct x; try discriminate Ax; reflexivity.
Qed.
Lemma plain_nums T : forallb plain_tok T = true -> nums T = [].
Proof.
  induction T as [|t r IH]; intros H; [reflexivity|]. cbn [forallb] in H. apply andb_prop in H. destruct H as [Ht Hr].
  unfold nums. cbn [flat_map]. fold (nums r). rewrite (IH Hr). destruct t; try discriminate Ht; reflexivity.
Qed.
Lemma group_nums g : is_group g -> nums g = [].
Proof.
  intros [U [-> [_ HU]]]. apply plain_nums. unfold grp. cbn [forallb plain_tok]. rewrite forallb_app, (tail_plain U HU). reflexivity.
Qed.
Lemma groups_plain gs : groups gs -> forallb plain_tok (concat gs) = true.
Proof.
  induction gs as [|g r IH]; intros HG; [reflexivity|]. cbn [concat]. rewrite forallb_app, IH by (intros g' IN; apply HG; right; exact IN).
  destruct (HG g (or_introl eq_refl)) as [U [-> [_ HU]]]. unfold grp. cbn [forallb plain_tok]. rewrite forallb_app, (tail_plain U HU). reflexivity.
Qed.

(** the state after a run: a current atom, no pending bond symbol *)
Definition settled (g : gst) : Prop := (exists c, q_cur g = Some c) /\ q_pend g = None.
Lemma run_tail T : tt T -> T <> [] -> forall g, (exists c, q_cur g = Some c) -> exists g1, grun false g T = Ok g1 /\ settled g1.
Proof.
  intros H. pattern T. revert T H. apply tt_ind; [intros X; contradiction|].
  intros b x gs T' Ax HG HT IHT _ g [c Cg].
  assert (GS : forall g0, settled g0 -> exists g1, grun false g0 (concat gs) = Ok g1 /\ settled g1).
  { clear - HG. induction gs as [|g r IH]; intros g0 S0; [exists g0; split; [reflexivity|exact S0]|].
    destruct (HG g (or_introl eq_refl)) as [U [-> [NE [_ QU]]]]. destruct S0 as [[c0 C0] P0].
    cbn [concat]. unfold grp. cbn [app]. rewrite <- app_assoc. cbn [grun gstep bind].
    set (g1 := {| q_atoms := q_atoms g0; q_edges := q_edges g0; q_cur := q_cur g0; q_n := q_n g0; q_pend := q_pend g0;
                  q_stack := match q_cur g0 with Some a => a :: q_stack g0 | None => q_stack g0 end; q_open := q_open g0; q_ez := q_ez g0 |}).
    destruct (QU NE g1 ltac:(exists c0; exact C0)) as [g2 [R2 [[c2 C2] P2]]].
    rewrite (grun_app_ok false g1 U _ g2 R2). cbn [app grun gstep bind].
    apply IH; [intros g' IN; apply HG; right; exact IN|]. split; cbn; [|exact P2].
    destruct (q_stack g2); eauto. }
  assert (XA : forall g0, (exists c, q_cur g0 = Some c) -> exists g1, grun false g0 (bond_toks b ++ [x]) = Ok g1 /\ settled g1).
  { intros g0 [c0 C0]. destruct b as [s|]; cbn [bond_toks app grun gstep bind]; rewrite (atom_step _ _ Ax); cbn [bind];
      (eexists; split; [reflexivity|]); split; cbn; eauto. }
  destruct (XA g ltac:(eauto)) as [g1 [R1 S1]]. destruct (GS g1 S1) as [g2 [R2 S2]].
  replace (bond_toks b ++ x :: concat gs ++ T') with ((bond_toks b ++ [x]) ++ concat gs ++ T') by (rewrite <- app_assoc; reflexivity).
  rewrite (grun_app_ok false g _ _ g1 R1), (grun_app_ok false g1 _ _ g2 R2).
  destruct T' as [|t0 T0]; [exists g2; split; [reflexivity|exact S2]|].
  apply IHT; [discriminate|exact (proj1 S2)].
Qed.
Lemma run_groups gs : groups gs -> forall g0, settled g0 -> exists g1, grun false g0 (concat gs) = Ok g1 /\ settled g1.
Proof.
  induction gs as [|g r IH]; intros HG g0 S0; [exists g0; split; [reflexivity|exact S0]|].
  destruct (HG g (or_introl eq_refl)) as [U [-> [NE HU]]]. destruct S0 as [[c0 C0] P0].
  cbn [concat]. unfold grp. cbn [app]. rewrite <- app_assoc. cbn [grun gstep bind].
  set (g1 := {| q_atoms := q_atoms g0; q_edges := q_edges g0; q_cur := q_cur g0; q_n := q_n g0; q_pend := q_pend g0;
                q_stack := match q_cur g0 with Some a => a :: q_stack g0 | None => q_stack g0 end; q_open := q_open g0; q_ez := q_ez g0 |}).
  destruct (run_tail U HU NE g1 ltac:(exists c0; exact C0)) as [g2 [R2 [[c2 C2] P2]]].
  rewrite (grun_app_ok false g1 U _ g2 R2). cbn [app grun gstep bind].
  apply IH; [intros g' IN; apply HG; right; exact IN|]. split; cbn; [|exact P2].
  destruct (q_stack g2); eauto.
Qed.
Lemma run_prefix a gs : is_atomtok a = true -> groups gs -> exists g, grun false ginit (a :: concat gs) = Ok g /\ settled g.
Proof.
  intros Aa HG. cbn [grun]. rewrite (atom_step _ _ Aa). cbn [bind]. apply (run_groups gs HG). split; cbn; eauto.
Qed.

(** * every step succeeds on a tree text and returns a tree text *)
Lemma groups_app gs1 gs2 : groups gs1 -> groups gs2 -> groups (gs1 ++ gs2).
Proof. intros H1 H2 g IN. apply in_app_or in IN. destruct IN; auto. Qed.
Lemma in_firstn {A} (x : A) : forall i l, In x (firstn i l) -> In x l.
Proof. induction i as [|i IH]; intros [|a l] H; cbn in *; try contradiction. destruct H as [->|H]; [left; reflexivity|right; apply IH; exact H]. Qed.
Lemma in_skipn {A} (x : A) : forall i l, In x (skipn i l) -> In x l.
Proof. induction i as [|i IH]; intros [|a l] H; cbn in *; try contradiction; auto. Qed.
Lemma groups_firstn i gs : groups gs -> groups (firstn i gs).
Proof. intros H g IN. apply H. apply (in_firstn _ _ _ IN). Qed.
Lemma groups_skipn i gs : groups gs -> groups (skipn i gs).
Proof. intros H g IN. apply H. apply (in_skipn _ _ _ IN). Qed.

Lemma reroot1_tree a gs b x gs2 T2 : is_atomtok a = true -> groups gs -> is_atomtok x = true -> groups gs2 -> tt T2 ->
  exists w' m, reroot1 (a :: concat gs ++ (bond_toks b ++ x :: concat gs2 ++ T2)) = Some (w', m) /\ tree_text w'.
Proof.
  intros Aa HG Ax HG2 HT2. set (T := bond_toks b ++ x :: concat gs2 ++ T2).
  assert (HT : tt T) by (apply tt_cons; assumption).
  exists (rr_dst a (concat gs) b x (concat gs2 ++ T2)), (Datatypes.S (count_atoms (concat gs))). split.
  - unfold reroot1. rewrite (take_blocks_tree gs T HG HT). rewrite Aa.
    pose proof (blocksb_groups gs HG []) as BB. rewrite app_nil_r in BB. rewrite BB. cbn [blocksb negb Nat.eqb andb].
    unfold T. destruct b as [s|]; cbn [bond_toks app]; [rewrite Ax; reflexivity|].
    destruct x; try discriminate Ax; reflexivity.
  - exists x, (grp (bond_toks b ++ a :: concat gs ++ []) :: gs2), T2. split; [exact Ax|]. split; [|split; [exact HT2|]].
    + intros g [<-|IN]; [|apply HG2; exact IN]. exists (bond_toks b ++ a :: concat gs ++ []). split; [reflexivity|]. split.
      * destruct b; discriminate.
      * apply tt_cons; [exact Aa|exact HG|exact tt_nil].
    + unfold rr_dst, grp. cbn [concat app]. rewrite app_nil_r. f_equal. f_equal. rewrite <- !app_assoc. cbn [app]. rewrite <- ?app_assoc. cbn [app]. reflexivity.
Qed.
Theorem reroot1_total a gs T : is_atomtok a = true -> groups gs -> tt T -> T <> [] ->
  exists w' m, reroot1 (a :: concat gs ++ T) = Some (w', m) /\ tree_text w'.
Proof.
  intros Aa HG HT NE. destruct (tt_shape T HT) as [->|[b [x [gs2 [T2 [Ax [HG2 [HT2 ->]]]]]]]]; [contradiction|].
  apply reroot1_tree; assumption.
Qed.

Lemma try_swap_tree a gsx pa q y : is_atomtok a = true -> groups gsx -> is_group pa -> is_group q ->
  exists s, try_swap (a :: concat gsx) pa q y = Some ((a :: concat gsx) ++ q ++ pa ++ y, s).
Proof.
  intros Aa HG HP HQ. destruct (run_prefix a gsx Aa HG) as [g [R [[c C] P]]]. unfold try_swap. rewrite R, C, P.
  rewrite (group_is_rblock pa HP), (group_is_rblock q HQ). unfold disjb. rewrite (group_nums pa HP). cbn [forallb andb].
  eexists. reflexivity.
Qed.
Lemma concat_snoc (gs : list (list tok)) q : concat (gs ++ [q]) = concat gs ++ q.
Proof. rewrite concat_app. cbn [concat]. rewrite app_nil_r. reflexivity. Qed.
Lemma bubble_tree a : forall qs gsx pa, is_atomtok a = true -> groups gsx -> is_group pa -> groups qs ->
  exists w s, bubble (a :: concat gsx) pa qs [] = Some (w, s).
Proof.
  induction qs as [|q r IH]; intros gsx pa Aa HG HP HQ; cbn [bubble]; [eexists; eexists; reflexivity|].
  destruct (try_swap_tree a gsx pa q (concat r ++ []) Aa HG HP (HQ q (or_introl eq_refl))) as [s1 E1]. rewrite E1.
  replace ((a :: concat gsx) ++ q) with (a :: concat (gsx ++ [q])) by (rewrite concat_snoc; reflexivity).
  destruct (IH (gsx ++ [q]) pa Aa) as [w [s2 E2]].
  - apply groups_app; [exact HG|]. intros g [<-|[]]. apply HQ. left. reflexivity.
  - exact HP.
  - intros g IN. apply HQ. right. exact IN.
  - rewrite E2. eexists. eexists. reflexivity.
Qed.
Lemma try_paren_tree a gs U : is_atomtok a = true -> groups gs -> tt U ->
  try_paren (a :: concat gs) U = Some ((a :: concat gs) ++ TOpen :: U ++ [TClose]).
Proof.
  intros Aa HG HU. destruct (run_prefix a gs Aa HG) as [g [R [[c C] _]]]. unfold try_paren. rewrite R, C.
  pose proof (nonnegb_tail U HU 0 []) as NN. rewrite app_nil_r in NN. rewrite NN. reflexivity.
Qed.

Theorem descend_total a gs T i : is_atomtok a = true -> groups gs -> tt T -> i < length gs ->
  exists w' s, descend i (a :: concat gs ++ T) = Some (w', s) /\ tree_text w'.
Proof.
  intros Aa HG HT Li. unfold descend. rewrite (take_blocks_tree gs T HG HT). cbv beta iota zeta. rewrite (split_groups_tree gs HG).
  destruct (nth_error gs i) as [pa|] eqn:EN; [|apply nth_error_None in EN; lia].
  assert (HP : is_group pa) by (apply HG; apply (nth_error_In _ _ EN)).
  destruct HP as [U [EU [NE HU]]]. assert (HP : is_group pa) by (exists U; auto).
  set (tailg := match T with [] => [] | _ :: _ => [TOpen :: T ++ [TClose]] end).
  assert (HTG : groups tailg).
  { unfold tailg. destruct T as [|t0 T0]; [intros g []|]. intros g [<-|[]]. exists (t0 :: T0). split; [reflexivity|]. split; [discriminate|exact HT]. }
  assert (E0 : exists w0, match T with [] => Some (a :: concat gs ++ T) | _ :: _ => try_paren (a :: concat gs) T end = Some w0).
  { destruct T as [|t0 T0]; [eexists; reflexivity|]. rewrite (try_paren_tree a gs _ Aa HG HT). eexists. reflexivity. }
  destruct E0 as [w0 E0]. rewrite E0.
  set (before := firstn i gs). set (after := skipn (Datatypes.S i) gs).
  destruct (bubble_tree a (after ++ tailg) before pa Aa (groups_firstn i gs HG) HP (groups_app _ _ (groups_skipn _ gs HG) HTG)) as [wb [sb EB]].
  rewrite EB.
  assert (IN : removelast (tl pa) = U) by (rewrite EU; unfold grp; cbn [tl]; apply removelast_last).
  rewrite IN.
  set (gs' := before ++ after ++ tailg).
  assert (HG' : groups gs') by (apply groups_app; [apply groups_firstn; exact HG|apply groups_app; [apply groups_skipn; exact HG|exact HTG]]).
  assert (X0 : a :: concat before ++ concat (after ++ tailg) = a :: concat gs') by (unfold gs'; rewrite (concat_app before); reflexivity).
  rewrite X0, (try_paren_tree a gs' U Aa HG' HU), (is_rblock_group pa (group_is_rblock pa HP)).
  destruct (reroot1_total a gs' U Aa HG' HU NE) as [w3 [m [E3 TT3]]].
  change ((a :: concat gs') ++ U) with (a :: concat gs' ++ U). rewrite E3. eexists. eexists. split; [reflexivity|exact TT3].
Qed.

(** along a path: every choice that exists can be taken *)
Definition step_of (st : option nat) (w : list tok) : option (list tok * (nat -> nat)) :=
  match st with
  | None => match reroot1 w with Some (w1, m) => Some (w1, rot m) | None => None end
  | Some i => descend i w
  end.
Definition choice_ok (st : option nat) (w : list tok) : bool :=
  let '(P, T) := take_blocks 0 (tl w) in
  match st with
  | None => match T with [] => false | _ => true end
  | Some i => i <? length (split_groups 0 [] P)
  end.
Fixpoint in_range (path : list (option nat)) (w : list tok) : Prop :=
  match path with
  | [] => True
  | st :: r => choice_ok st w = true /\ forall w1 s1, step_of st w = Some (w1, s1) -> in_range r w1
  end.
Theorem step_total st w : tree_text w -> choice_ok st w = true -> exists w1 s1, step_of st w = Some (w1, s1) /\ tree_text w1.
Proof.
  intros [a [gs [T [Aa [HG [HT ->]]]]]] CO. unfold choice_ok in CO. cbn [tl] in CO. rewrite (take_blocks_tree gs T HG HT) in CO.
  destruct st as [i|]; cbn [step_of].
  - rewrite (split_groups_tree gs HG) in CO. apply Nat.ltb_lt in CO. apply (descend_total a gs T i Aa HG HT CO).
  - assert (NE : T <> []) by (destruct T; [discriminate CO|discriminate]).
    destruct (reroot1_total a gs T Aa HG HT NE) as [w1 [m [E TT]]]. rewrite E. eexists. eexists. split; [reflexivity|exact TT].
Qed.
Theorem descend_path_total : forall path w, tree_text w -> in_range path w ->
  exists w' s, descend_path path w = Some (w', s) /\ tree_text w' /\ graphs_rel s (graph_of false w) (graph_of false w').
Proof.
  induction path as [|st r IH]; intros w TT IR.
  - exists w, sid. split; [reflexivity|]. split; [exact TT|]. apply graphs_rel_refl.
  - destruct IR as [CO IR]. destruct (step_total st w TT CO) as [w1 [s1 [E1 TT1]]].
    destruct (IH w1 TT1 (IR w1 s1 E1)) as [w2 [s2 [E2 [TT2 _]]]].
    assert (DP : descend_path (st :: r) w = Some (w2, sigma_comp s2 s1)).
    { cbn [descend_path]. fold (step_of st w). rewrite E1, E2. reflexivity. }
    exists w2, (sigma_comp s2 s1). split; [exact DP|]. split; [exact TT2|]. apply (descend_path_sound _ _ _ _ DP).
Qed.

(** non-vacuity: the text of SmilesDescend's example is a tree text, the path is in range *)
Lemma tree_example : tree_text ds_w /\ in_range [None; Some 2; Some 1] ds_w.
Proof.
  split.
  - exists (TAtom (S "C")), [], (TAtom (S "C") :: concat [grp [TAtom (S "F")]; grp ([TAtom (S "C")] ++ concat [grp [TAtom (S "Cl")]] ++ [TBond BDouble; TAtom (S "O")])] ++ [TAtom (S "N"); TBracket (S "NH3+") None]).
    split; [reflexivity|]. split; [intros g []|]. split; [|reflexivity].
    assert (A1 : forall e, tt [TAtom e]) by (intros e; apply (tt_cons None (TAtom e) [] [] eq_refl (fun g F => match F with end) tt_nil)).
    apply (tt_cons None (TAtom (S "C")) _ _ eq_refl).
    + intros g [<-|[<-|[]]].
      * exists [TAtom (S "F")]. split; [reflexivity|]. split; [discriminate|apply A1].
      * eexists. split; [reflexivity|]. split; [discriminate|].
        apply (tt_cons None (TAtom (S "C")) [grp [TAtom (S "Cl")]] [TBond BDouble; TAtom (S "O")] eq_refl).
        -- intros g [<-|[]]. exists [TAtom (S "Cl")]. split; [reflexivity|]. split; [discriminate|apply A1].
        -- apply (tt_cons (Some BDouble) (TAtom (S "O")) [] [] eq_refl (fun g F => match F with end) tt_nil).
    + apply (tt_cons None (TAtom (S "N")) [] [TBracket (S "NH3+") None] eq_refl (fun g F => match F with end)).
      apply (tt_cons None (TBracket (S "NH3+") None) [] [] eq_refl (fun g F => match F with end) tt_nil).
  - cbn [in_range]. split; [vm_compute; reflexivity|]. intros w1 s1 E1. vm_compute in E1. inversion E1; subst w1; clear E1.
    split; [vm_compute; reflexivity|]. intros w2 s2 E2. vm_compute in E2. inversion E2; subst w2; clear E2.
    split; [vm_compute; reflexivity|]. intros w3 s3 _. exact I.
Qed.
