(** SmilesTreeText: tree texts are well-formed SMILES token lists, the rewritings keep the tokens admissible,
    so the totality theorem of SmilesTree holds for what pysmiles builds from the two TEXTS. *)
From Coq Require Import String.
From Coq Require Import List Ascii ZArith Bool Lia Permutation.
From CGV Require Import Base.PyBase Base.PyVal Gen.SmilesGen Frag.NDict Frag.FragText Frag.SmilesParse Frag.SmilesSpec
     Frag.SmilesProofs Frag.SmilesPerm Frag.SmilesReverse Frag.SmilesPermR Frag.SmilesPermX Frag.SmilesPermG Frag.SmilesReroot
     Frag.SmilesRewrite Frag.SmilesWf Frag.SmilesDescend Frag.SmilesTree.
Import ListNotations.

Definition all_ok (w : list tok) : bool := forallb tok_smiles_ok w.

(** the well-formedness automaton on a tail *)
Lemma wf_end_tail T : tt T -> T <> [] -> all_ok T = true -> forall z d rest, (z = ZAtom \/ z = ZOpen) ->
  wf_end (z, d) (T ++ rest) = wf_end (ZAtom, d) rest.
Proof.
  intros H. pattern T. revert T H. apply tt_ind; [intros X; contradiction|].
  intros b x gs T' Ax HG HT IHT _ OK z d rest Z.
  unfold all_ok in OK. rewrite forallb_app in OK. apply andb_prop in OK. destruct OK as [OKb OK]. cbn [forallb] in OK.
  apply andb_prop in OK. destruct OK as [OKx OK]. rewrite forallb_app in OK. apply andb_prop in OK. destruct OK as [OKg OKt].
  assert (GS : forall rest', wf_end (ZAtom, d) (concat gs ++ rest') = wf_end (ZAtom, d) rest').
  { clear - HG OKg. revert OKg. induction gs as [|g r IH]; intros OKg rest'; [reflexivity|]. cbn [concat] in *. rewrite <- app_assoc.
    rewrite forallb_app in OKg. apply andb_prop in OKg. destruct OKg as [OK1 OK2].
    destruct (HG g (or_introl eq_refl)) as [U [-> [NE [_ QU]]]]. unfold grp in *. cbn [app wf_end wf_step tok_smiles_ok is_zatom]. rewrite <- app_assoc.
    cbn [forallb] in OK1. rewrite forallb_app in OK1. apply andb_prop in OK1. destruct OK1 as [_ OK1]. apply andb_prop in OK1. destruct OK1 as [OKU _].
    rewrite (QU NE OKU ZOpen (Datatypes.S d) _ (or_intror eq_refl)). cbn [app wf_end wf_step tok_smiles_ok is_zatom].
    apply IH; [intros g' IN; apply HG; right; exact IN|exact OK2]. }
  assert (TL : forall rest', wf_end (ZAtom, d) (T' ++ rest') = wf_end (ZAtom, d) rest').
  { intros rest'. destruct T' as [|t0 T0]; [reflexivity|]. apply IHT; [discriminate|exact OKt|left; reflexivity]. }
  assert (XA : forall z' r, wf_end (z', d) (x :: r) = wf_end (ZAtom, d) r).
  { intros z' r. cbn [wf_end wf_step]. rewrite OKx. destruct x; try discriminate Ax; reflexivity. }
  rewrite tail_unfold. destruct b as [s|]; cbn [bond_toks app].
  - assert (BD : wf_end (z, d) (TBond s :: x :: concat gs ++ T' ++ rest) = wf_end (ZBond, d) (x :: concat gs ++ T' ++ rest)).
    { destruct Z as [-> | ->]; reflexivity. }
    rewrite BD, XA, GS, TL. reflexivity.
  - rewrite XA, GS, TL. reflexivity.
Qed.
Lemma wf_end_groups gs : groups gs -> all_ok (concat gs) = true -> forall d rest, wf_end (ZAtom, d) (concat gs ++ rest) = wf_end (ZAtom, d) rest.
Proof.
  induction gs as [|g r IH]; intros HG OK d rest; [reflexivity|]. cbn [concat] in *. rewrite <- app_assoc.
  unfold all_ok in OK. rewrite forallb_app in OK. apply andb_prop in OK. destruct OK as [OK1 OK2].
  destruct (HG g (or_introl eq_refl)) as [U [-> [NE HU]]]. unfold grp in *. cbn [app wf_end wf_step tok_smiles_ok is_zatom]. rewrite <- app_assoc.
  cbn [forallb] in OK1. rewrite forallb_app in OK1. apply andb_prop in OK1. destruct OK1 as [_ OK1]. apply andb_prop in OK1. destruct OK1 as [OKU _].
  rewrite (wf_end_tail U HU NE OKU ZOpen (Datatypes.S d) _ (or_intror eq_refl)). cbn [app wf_end wf_step tok_smiles_ok is_zatom].
  apply IH; [intros g' IN; apply HG; right; exact IN|exact OK2].
Qed.
Theorem tree_text_wf w : tree_text w -> all_ok w = true -> wf_smiles w = true.
Proof.
  intros [a [gs [T [Aa [HG [HT ->]]]]]] OK. unfold wf_smiles. rewrite wf_toks_end. unfold all_ok in OK. cbn [forallb] in OK.
  apply andb_prop in OK. destruct OK as [OKa OK]. rewrite forallb_app in OK. apply andb_prop in OK. destruct OK as [OKg OKt].
  assert (SA : wf_end (ZStart, 0) (a :: concat gs ++ T) = wf_end (ZAtom, 0) (concat gs ++ T)).
  { cbn [wf_end wf_step]. rewrite OKa. destruct a; try discriminate Aa; reflexivity. }
  rewrite SA, (wf_end_groups gs HG OKg).
  destruct T as [|t0 T0]; [reflexivity|].
  pose proof (wf_end_tail (t0 :: T0) HT ltac:(discriminate) OKt ZAtom 0 [] (or_introl eq_refl)) as E. rewrite app_nil_r in E. rewrite E. reflexivity.
Qed.

(** the rewritings keep the tokens admissible *)
Lemma all_ok_app a b : all_ok (a ++ b) = all_ok a && all_ok b.
Proof. apply forallb_app. Qed.
Lemma rw1_ok w w' s : rw1 w w' s -> all_ok w = true -> all_ok w' = true.
Proof.
  intros H. destruct H; unfold rr_src, rr_dst; intros OK;
    repeat (rewrite ?all_ok_app in *; cbn [all_ok forallb tok_smiles_ok andb] in *; rewrite ?forallb_app in *; fold all_ok in *);
    repeat match goal with H : _ && _ = true |- _ => apply andb_prop in H; destruct H end;
    repeat match goal with H : ?x = true |- context [?x] => rewrite H end; try reflexivity; cbn; rewrite ?andb_true_r; auto.
Qed.
Lemma rws_ok w w' s : rws w w' s -> all_ok w = true -> all_ok w' = true.
Proof. intros H. induction H as [w|w1 w2 w3 s s' H1 H2 IH]; [auto|]. intros OK. apply IH. apply (rw1_ok _ _ _ H1 OK). Qed.

(** the totality theorem for the texts *)
Theorem descend_path_total_text path w : tree_text w -> all_ok w = true -> in_range path w ->
  exists w' s, descend_path path w = Some (w', s) /\ wf_smiles w = true /\ wf_smiles w' = true /\
    graphs_rel s (smiles_parse (render_smiles false w)) (smiles_parse (render_smiles false w')).
Proof.
  intros TT OK IR. destruct (descend_path_total path w TT IR) as [w' [s [E [TT' GR]]]]. exists w', s. split; [exact E|].
  pose proof (tree_text_wf w TT OK) as W. destruct (descend_path_rws path w w' s E) as [s' [R _]].
  pose proof (tree_text_wf w' TT' (rws_ok _ _ _ R OK)) as W'. split; [exact W|]. split; [exact W'|].
  rewrite (render_parse false _ W), (render_parse false _ W'). exact GR.
Qed.
Lemma tree_text_example : tree_text ds_w /\ all_ok ds_w = true /\ in_range [None; Some 2; Some 1] ds_w.
Proof. destruct tree_example as [A B]. split; [exact A|]. split; [vm_compute; reflexivity|exact B]. Qed.
