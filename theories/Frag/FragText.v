(** FragText: the SPECIFICATION side of property C13 (DESIGN Appendix A, "Fragment texts").
    A fragment text is a token list; bonding descriptors are inserted before the first atom
    (leading) and after atoms / ring-bond markers / closed branches ([decorate]); [strip_spec] says
    what the reader must return: the text without descriptors, annotations (and slash marks, which
    are reported separately), every descriptor with its order on the atom it was written after, the
    slash marks, and the parsed annotation of every bracket atom.  No look-ahead, no "current
    order", no deletion from the text.  No proofs here. *)
From Coq Require Import String.
From Coq Require Import List Ascii ZArith Bool.
From CGV Require Import Base.PyBase Base.PyVal Dialect.DialectImpl Frag.NDict.
Import ListNotations.

(** bond symbols: [. - = # $] are orders 0 1 2 3 4, [:] is 1.5 (the documented table; the theorems
    check that the table generated from the code agrees) *)
Inductive bsym := BSingle | BDouble | BTriple | BQuad | BArom | BZero.
Definition bchar (b : bsym) : ascii :=
  match b with BSingle => "-" | BDouble => "=" | BTriple => "#" | BQuad => "$" | BArom => ":" | BZero => "." end%char.
Definition border (b : bsym) : pyval :=
  match b with BSingle => VInt 1 | BDouble => VInt 2 | BTriple => VInt 3 | BQuad => VInt 4
          | BArom => VFlt (S "1.5") | BZero => VInt 0 end.
Definition bsym_eqb (a b : bsym) : bool :=
  match a, b with BSingle, BSingle | BDouble, BDouble | BTriple, BTriple | BQuad, BQuad | BArom, BArom | BZero, BZero => true
             | _, _ => false end.
Definition optb (b : option bsym) : pystr := match b with Some x => [bchar x] | None => [] end.
(** [str(order)] *)
Definition order_text (v : pyval) : pystr := match v with VInt z => str_of_Z z | VFlt r => r | _ => [] end.

(** descriptor [kind label] with an optional bond-order symbol *)
Record desc := { d_kind : ascii; d_label : pystr; d_sym : option bsym }.
Definition desc_text (d : desc) : pystr := d_kind d :: d_label d.
Definition desc_order (d : desc) : pyval := match d_sym d with None => VInt 1 | Some b => border b end.
Definition desc_entry (d : desc) : pystr := desc_text d ++ order_text (desc_order d).

Inductive tok :=
| TAtom (e : pystr)                              (* organic-subset atom, e.g. C, Cl, c *)
| TBracket (body : pystr) (annot : option pystr) (* [body] or [body;annot]; a coarse node has body #name *)
| TBond (b : bsym)
| TOpen | TClose
| TRing (b : option bsym) (marker : pystr)       (* ring-bond marker: digit or %nn, optional ring bond symbol *)
| TSlash (fwd : bool)                            (* / or \ *)
| TMult (n : nat).                               (* coarse multiplier |n *)

Definition slash_char (fwd : bool) : ascii := if fwd then "/"%char else "\"%char.
Definition render_tok (t : tok) : pystr :=
  match t with
  | TAtom e => e
  | TBracket body annot => "["%char :: body ++ (match annot with Some a => ";"%char :: a | None => [] end) ++ ["]"%char]
  | TBond b => [bchar b]
  | TOpen => ["("%char]
  | TClose => [")"%char]
  | TRing b m => optb b ++ m
  | TSlash f => [slash_char f]
  | TMult n => "|"%char :: str_of_nat n
  end.
(** the text the reader must hand to the SMILES / CGsmiles parser *)
Definition clean_tok (t : tok) : pystr :=
  match t with
  | TBracket body _ => "["%char :: body ++ ["]"%char]
  | TSlash _ => []
  | _ => render_tok t
  end.

(** decorated text: items *)
Inductive ditem := ILead (d : desc) | ITok (t : tok) | IDesc (d : desc).
Definition render_item (i : ditem) : pystr :=
  match i with
  | ILead d => "["%char :: desc_text d ++ "]"%char :: optb (d_sym d)       (* [$]=C : symbol AFTER a leading descriptor *)
  | IDesc d => optb (d_sym d) ++ "["%char :: desc_text d ++ ["]"%char]     (* C=[$] : symbol BEFORE the descriptor *)
  | ITok t => render_tok t
  end.
Definition render (items : list ditem) : pystr := flat_map render_item items.

Record decor := { d_lead : list desc; d_after : list (list desc) }.   (* d_after: one list per token *)
Fixpoint interleave (toks : list tok) (after : list (list desc)) : list ditem :=
  match toks with
  | [] => []
  | t :: r => ITok t :: map IDesc (hd [] after) ++ interleave r (tl after)
  end.
Definition decorate (toks : list tok) (dc : decor) : list ditem :=
  map ILead (d_lead dc) ++ interleave toks (d_after dc).

(** * what the reader must return *)
Record sst := {
  s_n : nat;                       (* atoms so far = index of the next atom *)
  s_owner : nat;                   (* the atom a descriptor written here belongs to *)
  s_stack : list nat;              (* atoms the open branches hang on *)
  s_clean : pystr;
  s_desc : ndict (list pystr);
  s_ez : ndict ascii;
  s_ann : ndict attrs }.
Definition sinit : sst :=
  {| s_n := 0; s_owner := 0; s_stack := []; s_clean := []; s_desc := []; s_ez := []; s_ann := [] |}.

Definition spec_tok (fo : float_oracle) (sp : sst) (t : tok) : res sst :=
  let clean := s_clean sp ++ clean_tok t in
  match t with
  | TAtom _ =>
      Ok {| s_n := Datatypes.S (s_n sp); s_owner := s_n sp; s_stack := s_stack sp; s_clean := clean;
            s_desc := s_desc sp; s_ez := s_ez sp; s_ann := s_ann sp |}
  | TBracket _ annot =>
      a <- fragment_node_parser fo (match annot with Some x => x | None => [] end) ;;
      Ok {| s_n := Datatypes.S (s_n sp); s_owner := s_n sp; s_stack := s_stack sp; s_clean := clean;
            s_desc := s_desc sp; s_ez := s_ez sp; s_ann := nd_update (s_n sp) a (s_ann sp) |}
  | TOpen =>
      Ok {| s_n := s_n sp; s_owner := s_owner sp; s_stack := s_owner sp :: s_stack sp; s_clean := clean;
            s_desc := s_desc sp; s_ez := s_ez sp; s_ann := s_ann sp |}
  | TClose =>
      Ok {| s_n := s_n sp; s_owner := hd (s_owner sp) (s_stack sp); s_stack := tl (s_stack sp); s_clean := clean;
            s_desc := s_desc sp; s_ez := s_ez sp; s_ann := s_ann sp |}
  | TSlash f =>      (* marks the atom after the slash (the next atom) and the atom before it *)
      Ok {| s_n := s_n sp; s_owner := s_owner sp; s_stack := s_stack sp; s_clean := clean;
            s_desc := s_desc sp;
            s_ez := nd_set (s_owner sp) (slash_char f) (nd_set (s_n sp) (slash_char f) (s_ez sp));
            s_ann := s_ann sp |}
  | TMult k =>       (* k copies of the node before it; what follows belongs to the last copy *)
      Ok {| s_n := s_n sp + (k - 1); s_owner := s_owner sp + (k - 1); s_stack := s_stack sp; s_clean := clean;
            s_desc := s_desc sp; s_ez := s_ez sp; s_ann := s_ann sp |}
  | TBond _ | TRing _ _ =>
      Ok {| s_n := s_n sp; s_owner := s_owner sp; s_stack := s_stack sp; s_clean := clean;
            s_desc := s_desc sp; s_ez := s_ez sp; s_ann := s_ann sp |}
  end.
Definition spec_desc (sp : sst) (d : desc) : sst :=
  {| s_n := s_n sp; s_owner := s_owner sp; s_stack := s_stack sp; s_clean := s_clean sp;
     s_desc := nd_append (s_owner sp) (desc_entry d) (s_desc sp); s_ez := s_ez sp; s_ann := s_ann sp |}.
Definition spec_item (fo : float_oracle) (sp : sst) (i : ditem) : res sst :=
  match i with
  | ILead d | IDesc d => Ok (spec_desc sp d)
  | ITok t => spec_tok fo sp t
  end.
Fixpoint spec_run (fo : float_oracle) (sp : sst) (items : list ditem) : res sst :=
  match items with
  | [] => Ok sp
  | i :: r => sp' <- spec_item fo sp i ;; spec_run fo sp' r
  end.
Definition sresult := (pystr * ndict (list pystr) * ndict ascii * ndict attrs)%type.
Definition spec_items (fo : float_oracle) (items : list ditem) : res sresult :=
  sp <- spec_run fo sinit items ;; Ok (s_clean sp, s_desc sp, s_ez sp, s_ann sp).
Definition strip_spec (fo : float_oracle) (toks : list tok) (dc : decor) : res sresult :=
  spec_items fo (decorate toks dc).

(** * the property's domain *)
Definition organic_atoms : list pystr :=
  [S "B"; S "C"; S "N"; S "O"; S "P"; S "S"; S "F"; S "Cl"; S "Br"; S "I";
   S "b"; S "c"; S "n"; S "o"; S "p"; S "s"].
Definition kind_chars : pystr := S "$><!".
Definition is_rbr (c : ascii) : bool := Ascii.eqb c "]"%char.
Definition is_semi (c : ascii) : bool := Ascii.eqb c ";"%char.
Definition body_ok (body : pystr) : bool :=
  forallb (fun c => negb (is_rbr c) && negb (is_semi c)) body &&
  match body with c :: _ => negb (char_in c kind_chars) | [] => true end.
Definition annot_ok (a : option pystr) : bool :=
  match a with Some x => forallb (fun c => negb (is_rbr c)) x | None => true end.
Definition is_percent (c : ascii) : bool := Ascii.eqb c "%"%char.
Definition marker_ok (m : pystr) : bool :=
  match m with
  | [d] => is_digit d
  | p :: d :: ds => is_percent p && forallb is_digit (d :: ds)
  | [] => false
  end.
(** the order symbol of a descriptor may be any of the six bond symbols: . - = # $ are the orders
    0 1 2 3 4, : is 1.5 (reported as the text "1.5") *)
Definition desc_ok (d : desc) : bool :=
  char_in (d_kind d) kind_chars && forallb is_alnum (d_label d).
Definition tok_ok (t : tok) : bool :=
  match t with
  | TAtom e => str_in e organic_atoms
  | TBracket body annot => body_ok body && annot_ok annot
  | TRing _ m => marker_ok m
  | TMult n => Nat.leb 1 n
  | _ => true
  end.

(** where in the text we are: before the first atom; after an atom (or its ring markers, a closed
    branch, a descriptor) = where descriptors may be written; after a bond symbol or slash (an atom
    must follow); after an opening parenthesis *)
Inductive zone := ZStart | ZAtom | ZBond | ZOpen.
Definition is_zatom (z : zone) : bool := match z with ZAtom => true | _ => false end.
Fixpoint wf_items (z : zone) (depth : nat) (items : list ditem) : bool :=
  match items with
  | [] => is_zatom z && Nat.eqb depth 0
  | ILead d :: r => match z with ZStart => desc_ok d && wf_items ZStart depth r | _ => false end
  | IDesc d :: r => is_zatom z && desc_ok d && wf_items ZAtom depth r
  | ITok t :: r =>
      tok_ok t &&
      match t with
      | TAtom _ | TBracket _ _ => wf_items ZAtom depth r
      | TBond _ | TSlash _ => match z with ZAtom | ZOpen => wf_items ZBond depth r | _ => false end
      | TOpen => is_zatom z && wf_items ZOpen (Datatypes.S depth) r
      | TClose => is_zatom z && match depth with O => false | Datatypes.S d => wf_items ZAtom d r end
      | TRing _ _ | TMult _ => is_zatom z && wf_items ZAtom depth r
      end
  end.
Definition wf (toks : list tok) (dc : decor) : bool :=
  Nat.leb (length (d_after dc)) (length toks) && wf_items ZStart 0 (decorate toks dc).

(** * defect class of the current implementation (decidable, on the decorated token list) *)
(** class 3 (the number is kept from the time when there were three classes; classes 1
    "descriptor after a ring-bond marker with symbol" and 2 "order-0 symbol before a non-leading
    descriptor" were repaired in /repo by commits f3554b8 and 0d0f450): a multiplier in a coarse
    fragment *)
Definition has_mult (items : list ditem) : bool :=
  existsb (fun i => match i with ITok (TMult _) => true | _ => false end) items.
Definition class_of (items : list ditem) : nat := if has_mult items then 3 else 0.
Definition excluded_items (items : list ditem) : bool := negb (Nat.eqb (class_of items) 0).
Definition excluded (toks : list tok) (dc : decor) : bool := excluded_items (decorate toks dc).
