(** SmilesPermG: branch order with ANY ring bonds through the exchanged branches (text level of C01).
    Two adjacent branches on one atom whose ring-bond NUMBERS are disjoint may open ring bonds that are
    closed later, close ring bonds that were opened before them, or keep them inside; written in either
    order the graphs are equal up to the block permutation [swap_sigma] (or both parses fail).
    The ring table belongs to the local state here ([xjoin]); it is compared by look-up ([PSimE], [TEq]),
    not as a list.  For [ks = false]. *)
From Coq Require Import String.
From Coq Require Import List Ascii ZArith Bool Lia Permutation.
From CGV Require Import Base.PyBase Base.PyVal Gen.SmilesGen Frag.NDict Frag.FragText Frag.SmilesParse Frag.SmilesSpec
     Frag.SmilesProofs Frag.SmilesPerm Frag.SmilesPermR.
Import ListNotations.

(** * look-ups in the ring table *)
Lemma ring_get_del z' z o : ring_get z' (ring_del z o) = if Z.eqb z' z then None else ring_get z' o.
Proof.
  unfold ring_del. induction o as [|[k v] r IH]; cbn [filter ring_get fst]; [destruct (Z.eqb z' z); reflexivity|].
  destruct (Z.eqb_spec z k) as [->|NK]; cbn [negb].
  - rewrite IH. destruct (Z.eqb_spec z' k); reflexivity.
  - cbn [ring_get]. rewrite IH. destruct (Z.eqb_spec z' k) as [->|N2]; [|reflexivity].
    destruct (Z.eqb_spec k z); [congruence|reflexivity].
Qed.
Lemma ring_get_snoc z' z v o :
  ring_get z' (o ++ [(z, v)]) = match ring_get z' o with Some x => Some x | None => if Z.eqb z' z then Some v else None end.
Proof. induction o as [|[k w] r IH]; cbn [app ring_get]; [reflexivity|]. destruct (Z.eqb z' k); [reflexivity|exact IH]. Qed.

(** * Part 1: permutation simulation with the ring table compared by look-up *)
Definition omap1 (s : nat -> nat) (jb : nat * bondstr) : nat * bondstr := (s (fst jb), snd jb).
Record PSimE (s : nat -> nat) (g h : gst) : Prop := {
  pe_n : q_n h = q_n g;
  pe_leng : length (q_atoms g) = q_n g;
  pe_lenh : length (q_atoms h) = q_n h;
  pe_atoms : forall i, i < q_n g -> nth_error (q_atoms h) (s i) = nth_error (q_atoms g) i;
  pe_edges : Permutation (map (emap s) (q_edges g)) (q_edges h);
  pe_cur : q_cur h = option_map s (q_cur g);
  pe_stack : q_stack h = map s (q_stack g);
  pe_open : forall z, ring_get z (q_open h) = option_map (omap1 s) (ring_get z (q_open g));
  pe_pend : q_pend h = q_pend g;
  pe_ez : q_ez h = q_ez g }.

Lemma gstep_psime s g h t : sigma_ok s (q_n g) -> PSimE s g h ->
  match gstep false g t, gstep false h t with
  | Ok g1, Ok h1 => PSimE s g1 h1 /\ sigma_ok s (q_n g1)
  | Err e, Err e' => e = e'
  | _, _ => False
  end.
Proof.
  intros SO [N LG LH A E C K O P Z]. destruct SO as [I [B F]].
  assert (SO : sigma_ok s (q_n g)) by (split; [exact I|split; assumption]).
  destruct t as [e|body annot|b| | |b m|fw|n]; cbn [gstep].
  1,2: (split; [|apply sigma_ok_S; exact SO]); constructor; cbn;
    [ congruence | rewrite app_length; cbn; lia | rewrite app_length; cbn; lia
    | intros i L; destruct (Nat.eq_dec i (q_n g)) as [->|NE];
      [ rewrite F by lia; rewrite nth_error_app2 by lia; rewrite nth_error_app2 by lia;
        replace (q_n g - length (q_atoms h)) with 0 by lia; replace (q_n g - length (q_atoms g)) with 0 by lia; reflexivity
      | assert (L' : i < q_n g) by lia; pose proof (B i L');
        rewrite nth_error_app1 by lia; rewrite nth_error_app1 by lia; apply A; exact L' ]
    | rewrite C; destruct (q_cur g) as [a|]; cbn; [|exact E];
      rewrite map_app; cbn; rewrite N, P, (F (q_n g)) by lia; apply Permutation_app; [exact E|reflexivity]
    | rewrite N, F by lia; reflexivity | assumption | assumption | reflexivity | assumption ].
  - split; [|exact SO]. constructor; cbn; auto.
  - split; [|exact SO]. constructor; cbn; auto. rewrite C, K. destruct (q_cur g); reflexivity.
  - split; [|exact SO]. constructor; cbn; auto.
    + rewrite K, C. destruct (q_stack g); reflexivity.
    + rewrite K. destruct (q_stack g); reflexivity.
  - unfold add_ring. rewrite C. destruct (q_cur g) as [a|]; cbn [option_map]; [|reflexivity].
    rewrite (O (marker_val m)). destruct (ring_get (marker_val m) (q_open g)) as [[j o]|]; cbn [option_map omap1 fst snd].
    + destruct (merge_bond (option_map bchar b) o) as [nb|err]; cbn [bind]; [|reflexivity].
      rewrite <- (has_edge_perm _ _ _ _ E), has_edge_map by exact I.
      destruct (has_edge a j (q_edges g)); [reflexivity|].
      assert (Q : Nat.eqb (s a) (s j) = Nat.eqb a j).
      { destruct (Nat.eqb_spec a j) as [->|NE]; [apply Nat.eqb_refl|].
        destruct (Nat.eqb_spec (s a) (s j)) as [E1|_]; [exfalso; apply NE, I, E1|reflexivity]. }
      rewrite Q. destruct (Nat.eqb a j); [reflexivity|].
      split; [|exact SO]. constructor; cbn; auto; try (rewrite C; reflexivity).
      * rewrite map_app; cbn; apply Permutation_app; [exact E|reflexivity].
      * intros z. rewrite !ring_get_del. destruct (Z.eqb z (marker_val m)); [reflexivity|apply O].
    + split; [|exact SO]. constructor; cbn; auto; try (rewrite C; reflexivity).
      intros z. rewrite !ring_get_snoc, (O z). destruct (ring_get z (q_open g)); cbn [option_map]; [reflexivity|].
      destruct (Z.eqb z (marker_val m)); reflexivity.
  - split; [|exact SO]. constructor; assumption.
  - split; [|exact SO]. constructor; assumption.
Qed.
Lemma grun_psime s : forall toks g h, sigma_ok s (q_n g) -> PSimE s g h ->
  match grun false g toks, grun false h toks with
  | Ok g1, Ok h1 => PSimE s g1 h1 /\ sigma_ok s (q_n g1)
  | Err e, Err e' => e = e'
  | _, _ => False
  end.
Proof.
  induction toks as [|t r IH]; intros g h SO S; cbn [grun]; [split; assumption|].
  pose proof (gstep_psime s g h t SO S) as H.
  destruct (gstep false g t) as [g1|e], (gstep false h t) as [h1|e']; cbn [bind]; try contradiction; [|exact H].
  destruct H as [H1 H2]. apply IH; assumption.
Qed.

(** * Part 2: a branch run locally, the ring table owned by the local state *)
Definition xjoin (g l : gst) : gst :=
  {| q_atoms := q_atoms g ++ q_atoms l; q_edges := q_edges g ++ q_edges l; q_cur := q_cur l; q_n := q_n l;
     q_pend := q_pend l; q_stack := q_stack l ++ q_stack g; q_open := q_open l; q_ez := q_ez g |}.
Definition local0x (c n : nat) (O : list (Z * (nat * bondstr))) : gst :=
  {| q_atoms := []; q_edges := []; q_cur := Some c; q_n := n; q_pend := None; q_stack := []; q_open := O; q_ez := [] |}.

Record XInv (n0 c : nat) (z : zone) (depth : nat) (l : gst) : Prop := {
  xi_n : q_n l = n0 + length (q_atoms l);
  xi_edges : forall u v b, In (u, v, b) (q_edges l) -> (u < q_n l /\ v < q_n l);
  xi_cur : exists a, q_cur l = Some a /\ a < q_n l /\ (depth > 0 -> z = ZAtom -> n0 <= a);
  xi_stack : length (q_stack l) = depth /\ (forall x, In x (q_stack l) -> x < q_n l) /\
             (depth > 0 -> exists st, q_stack l = st ++ [c] /\ forall x, In x st -> n0 <= x);
  xi_pend : z <> ZBond -> q_pend l = None;
  xi_open : forall k j b, In (k, (j, b)) (q_open l) -> j < q_n l }.

Definition XConcl (g : gst) (n0 c : nat) (l : gst) (toks : list tok) : Prop :=
  match grun false l toks with
  | Ok l' => grun false (xjoin g l) toks = Ok (xjoin g l') /\ XInv n0 c ZAtom 0 l' /\
             q_cur l' = Some c /\ q_n l' = q_n l + count_atoms toks /\
             (forall d, grun false (rshift d n0 l) toks = Ok (rshift d n0 l'))
  | Err e => grun false (xjoin g l) toks = Err e /\ (forall d, grun false (rshift d n0 l) toks = Err e)
  end.
Lemma xconcl_step g n0 c l t r l1 :
  gstep false l t = Ok l1 -> gstep false (xjoin g l) t = Ok (xjoin g l1) ->
  (forall d, gstep false (rshift d n0 l) t = Ok (rshift d n0 l1)) ->
  q_n l1 = q_n l + count_atoms [t] ->
  XConcl g n0 c l1 r -> XConcl g n0 c l (t :: r).
Proof.
  intros S1_ S2 S3 SN H. unfold XConcl in *. cbn [grun]. rewrite S1_, S2. cbn [bind].
  destruct (grun false l1 r) as [l'|e].
  - destruct H as [R2 [R3 [R4 [R5 R6]]]]. split; [exact R2|]. split; [exact R3|]. split; [exact R4|]. split.
    + rewrite R5, SN, (count_atoms_cons t r). lia.
    + intros d. rewrite S3. cbn [bind]. apply R6.
  - destruct H as [R2 R6]. split; [exact R2|]. intros d. rewrite S3. cbn [bind]. apply R6.
Qed.

Lemma xblk_run g n0 c : c < n0 -> (forall u v b, In (u, v, b) (q_edges g) -> u < n0 /\ v < n0) ->
  forall toks z depth l,
  rblkz z depth toks = true -> XInv n0 c z depth l -> depth > 0 ->
  XConcl g n0 c l toks.
Proof.
  intros CN GB. induction toks as [|t r IH]; intros z depth l B LI DP; [discriminate B|].
  destruct LI as [LN LE [a [LC [LA LO]]] [LS1 [LS2 LS3]] LP OB].
  cbn [rblkz] in B.
  assert (SHN : forall d, sh d n0 (q_n l) = q_n l + d) by (intros d; unfold sh; destruct (Nat.ltb_spec (q_n l) n0); lia).
  destruct t as [e|body annot|b| | |b m|fw|n]; try discriminate B.
  - (* atom *)
    apply (xconcl_step g n0 c l _ r (add_atom l e)); auto.
    + cbn. unfold xjoin, add_atom. cbn. rewrite LC. rewrite <- !app_assoc. reflexivity.
    + intros d. cbn. unfold rshift, add_atom. cbn. rewrite LC. cbn. rewrite map_app. cbn. rewrite SHN. reflexivity.
    + unfold count_atoms. cbn. lia.
    + apply (IH ZAtom depth); auto. constructor; cbn; rewrite ?LC.
      * rewrite app_length. cbn. lia.
      * intros u v b0 IN. apply in_app_or in IN. destruct IN as [IN|[IN|[]]]; [destruct (LE u v b0 IN); lia|inversion IN; subst; lia].
      * eexists. split; [reflexivity|]. split; [lia|intros; lia].
      * split; [exact LS1|]. split; [intros x IN; specialize (LS2 x IN); lia|exact LS3].
      * reflexivity.
      * intros k j b0 IN. specialize (OB k j b0 IN). lia.
  - apply (xconcl_step g n0 c l _ r (add_atom l (clean_tok (TBracket body annot)))); auto.
    + cbn. unfold xjoin, add_atom. cbn. rewrite LC. rewrite <- !app_assoc. reflexivity.
    + intros d. cbn. unfold rshift, add_atom. cbn. rewrite LC. cbn. rewrite map_app. cbn. rewrite SHN. reflexivity.
    + unfold count_atoms. cbn. lia.
    + apply (IH ZAtom depth); auto. constructor; cbn; rewrite ?LC.
      * rewrite app_length. cbn. lia.
      * intros u v b0 IN. apply in_app_or in IN. destruct IN as [IN|[IN|[]]]; [destruct (LE u v b0 IN); lia|inversion IN; subst; lia].
      * eexists. split; [reflexivity|]. split; [lia|intros; lia].
      * split; [exact LS1|]. split; [intros x IN; specialize (LS2 x IN); lia|exact LS3].
      * reflexivity.
      * intros k j b0 IN. specialize (OB k j b0 IN). lia.
  - (* bond *)
    assert (B' : rblkz ZBond depth r = true) by (destruct z; try discriminate B; exact B).
    eapply (xconcl_step g n0 c l _ r _); [reflexivity|reflexivity|intros d; reflexivity|cbn; unfold count_atoms; cbn; lia|].
    apply (IH ZBond depth); auto. constructor; cbn; auto.
    + exists a. split; [exact LC|]. split; [exact LA|]. intros _ X; discriminate X.
    + intros X; exfalso; apply X; reflexivity.
  - (* open *)
    apply andb_prop in B. destruct B as [Bz B]. destruct z; try discriminate Bz.
    eapply (xconcl_step g n0 c l _ r _); [reflexivity| |intros d| |].
    + cbn. unfold xjoin. cbn. rewrite LC. reflexivity.
    + cbn. unfold rshift. cbn. rewrite LC. cbn. reflexivity.
    + unfold count_atoms. cbn. lia.
    + apply (IH ZOpen (Datatypes.S depth)); auto; try lia. constructor; cbn; rewrite ?LC; auto.
      * exists a. split; [reflexivity|]. split; [exact LA|]. intros _ X; discriminate X.
      * split; [cbn; lia|]. split.
        -- intros x [<-|IN]; [exact LA|apply LS2; exact IN].
        -- intros _. destruct (LS3 DP) as [st [Hst Hlo]]. exists (a :: st). split; [rewrite Hst; reflexivity|].
           intros x [<-|IN]; [apply LO; [exact DP|reflexivity]|apply Hlo; exact IN].
      * intros _. apply LP. discriminate.
  - (* close *)
    apply andb_prop in B. destruct B as [Bz B]. destruct z; try discriminate Bz.
    destruct depth as [|[|d2]]; [discriminate B| |].
    + destruct r; [|discriminate B].
      destruct (LS3 DP) as [st [Hst Hlo]]. assert (st = []) by (destruct st as [|x [|y st]]; rewrite Hst in LS1; cbn in LS1;
        [reflexivity|discriminate LS1|rewrite app_length in LS1; cbn in LS1; lia]). subst st. cbn in Hst.
      unfold XConcl. cbn [grun gstep bind].
      split; [unfold xjoin; cbn; rewrite Hst; reflexivity|]. split; [|split; [|split]].
      * constructor; cbn; rewrite ?Hst; cbn; auto;
          try (exists c; split; [reflexivity|split; [lia|intros X; lia]]);
          try (split; [reflexivity|split; [intros x []|intros X; lia]]);
          try (intros _; apply LP; discriminate).
      * cbn. rewrite Hst. reflexivity.
      * unfold count_atoms. cbn. lia.
      * intros d. unfold rshift. cbn. rewrite Hst. cbn. rewrite sh_lt by exact CN. reflexivity.
    + destruct (LS3 DP) as [st [Hst Hlo]].
      destruct (q_stack l) as [|x rest] eqn:Es; [cbn in LS1; discriminate LS1|].
      eapply (xconcl_step g n0 c l _ r _); [reflexivity| |intros d| |].
      * cbn. unfold xjoin. cbn. rewrite Es. reflexivity.
      * cbn. unfold rshift. cbn. rewrite Es. cbn. reflexivity.
      * unfold count_atoms. cbn. lia.
      * apply (IH ZAtom (Datatypes.S d2)); auto; try lia.
        destruct st as [|y st']; cbn in Hst; inversion Hst; subst; [cbn in LS1; discriminate LS1|].
        constructor; cbn; rewrite ?Es; cbn; auto;
          try (exists y; split; [reflexivity|]; split; [apply LS2; left; reflexivity|]; intros _ _; apply Hlo; left; reflexivity);
          try (intros _; apply LP; discriminate).
        split; [cbn in LS1; lia|]. split; [intros w IN; apply LS2; right; exact IN|].
        intros _. exists st'. split; [reflexivity|]. intros w IN. apply Hlo. right. exact IN.
  - (* ring-bond marker *)
    apply andb_prop in B. destruct B as [Bz B]. destruct z; try discriminate Bz.
    pose proof (LO DP eq_refl) as ALO. pose proof (LP ltac:(discriminate)) as PN.
    set (zv := marker_val m) in *. set (ob := option_map bchar b).
    assert (STEPJ : gstep false (xjoin g l) (TRing b m) =
              match add_ring l ob zv with Ok l1 => Ok (xjoin g l1) | Err e => Err e end).
    { cbn [gstep]. fold zv ob. unfold add_ring, xjoin. cbn [q_atoms q_edges q_cur q_n q_pend q_stack q_open q_ez]. rewrite LC.
      destruct (ring_get zv (q_open l)) as [[j o]|]; [|reflexivity].
      destruct (merge_bond ob o) as [nb|e]; cbn [bind]; [|reflexivity].
      rewrite has_edge_app, (has_edge_low a j (q_edges g) n0 GB ALO). cbn [orb].
      destruct (has_edge a j (q_edges l)); [reflexivity|]. destruct (Nat.eqb a j); [reflexivity|].
      rewrite <- ?app_assoc. reflexivity. }
    assert (STEPS : forall d, gstep false (rshift d n0 l) (TRing b m) =
              match add_ring l ob zv with Ok l1 => Ok (rshift d n0 l1) | Err e => Err e end).
    { intros d. cbn [gstep]. fold zv ob. unfold add_ring, rshift. cbn [q_atoms q_edges q_cur q_n q_pend q_stack q_open q_ez]. rewrite LC. cbn [option_map]. rewrite ring_get_omap.
      destruct (ring_get zv (q_open l)) as [[j o]|]; cbn [option_map fst snd].
      - destruct (merge_bond ob o) as [nb|e]; cbn [bind]; [|reflexivity].
        rewrite (has_edge_map (sh d n0) a j (q_edges l) (sh_inj d n0)).
        destruct (has_edge a j (q_edges l)); [reflexivity|].
        assert (Q : Nat.eqb (sh d n0 a) (sh d n0 j) = Nat.eqb a j).
        { destruct (Nat.eqb_spec a j) as [->|NE]; [apply Nat.eqb_refl|].
          destruct (Nat.eqb_spec (sh d n0 a) (sh d n0 j)) as [E1|_]; [exfalso; apply NE, (sh_inj d n0), E1|reflexivity]. }
        rewrite Q. destruct (Nat.eqb a j); [reflexivity|]. cbn [q_atoms q_edges q_cur q_n q_pend q_stack q_open q_ez option_map]. rewrite map_app, ring_del_omap. reflexivity.
      - cbn [q_atoms q_edges q_cur q_n q_pend q_stack q_open q_ez option_map]. unfold omap. rewrite map_app. reflexivity. }
    unfold XConcl. cbn [grun]. rewrite STEPJ. change (gstep false l (TRing b m)) with (add_ring l ob zv).
    assert (STEPS' := STEPS).
    destruct (add_ring l ob zv) as [l1|e] eqn:EA; cbn [bind].
    + assert (K : q_cur l1 = Some a /\ q_n l1 = q_n l /\ q_atoms l1 = q_atoms l /\ q_stack l1 = q_stack l /\ q_pend l1 = None /\
                  (forall k j b0, In (k, (j, b0)) (q_open l1) -> j < q_n l1) /\
                  (forall u v b0, In (u, v, b0) (q_edges l1) -> u < q_n l1 /\ v < q_n l1)).
      { unfold add_ring in EA. rewrite LC in EA.
        destruct (ring_get zv (q_open l)) as [[j o]|] eqn:ER.
        - destruct (merge_bond ob o); cbn in EA; [|discriminate EA].
          destruct (has_edge a j (q_edges l)); [discriminate EA|]. destruct (Nat.eqb a j); [discriminate EA|].
          inversion EA; subst l1; clear EA. cbn.
          split; [reflexivity|]. split; [reflexivity|]. split; [reflexivity|]. split; [reflexivity|]. split; [reflexivity|]. split.
          + intros k j0 b0 IN. unfold ring_del in IN. apply filter_In in IN. destruct IN as [IN _]. apply (OB k j0 b0 IN).
          + intros u v b0 IN. apply in_app_or in IN. destruct IN as [IN|[IN|[]]]; [apply (LE u v b0 IN)|]. inversion IN; subst.
            split; [exact LA|]. apply (OB _ _ _ (ring_get_in _ _ _ _ ER)).
        - inversion EA; subst l1; clear EA. cbn.
          split; [reflexivity|]. split; [reflexivity|]. split; [reflexivity|]. split; [reflexivity|]. split; [reflexivity|].
          split; [|exact LE].
          intros k j0 b0 IN. apply in_app_or in IN. destruct IN as [IN|[IN|[]]]; [apply (OB k j0 b0 IN)|]. inversion IN; subst. exact LA. }
      destruct K as [K1 [K2 [K3 [K4 [K5 [K7 K8]]]]]].
      assert (LI1 : XInv n0 c ZAtom depth l1).
      { constructor.
        - rewrite K2, K3. exact LN.
        - exact K8.
        - exists a. split; [exact K1|]. split; [rewrite K2; exact LA|]. intros _ _. exact ALO.
        - rewrite K4, K2. split; [exact LS1|]. split; [exact LS2|exact LS3].
        - intros _. exact K5.
        - exact K7. }
      pose proof (IH ZAtom depth l1 B LI1 DP) as H. unfold XConcl in H.
      destruct (grun false l1 r) as [l'|e'].
      * destruct H as [R2 [R3 [R4 [R5 R6]]]]. split; [exact R2|]. split; [exact R3|]. split; [exact R4|]. split.
        -- rewrite R5, K2. rewrite (count_atoms_cons (TRing b m) r). unfold count_atoms at 2. cbn. lia.
        -- intros d. cbn [grun]. rewrite (STEPS' d). cbn [bind]. apply R6.
      * destruct H as [R2 R6]. split; [exact R2|]. intros d. cbn [grun]. rewrite (STEPS' d). cbn [bind]. apply R6.
    + split; [reflexivity|]. intros d. cbn [grun]. rewrite (STEPS' d). reflexivity.
  - (* slash *)
    assert (B' : rblkz ZBond depth r = true) by (destruct z; try discriminate B; exact B).
    eapply (xconcl_step g n0 c l _ r l); [reflexivity|reflexivity|intros d; reflexivity|cbn; unfold count_atoms; cbn; lia|].
    apply (IH ZBond depth); auto. constructor; auto;
      try (exists a; split; [exact LC|]; split; [exact LA|]; intros _ X; discriminate X);
      try (intros X; apply LP; destruct z; try discriminate B; discriminate).
Qed.

Lemma xjoin_local0x g c : q_cur g = Some c -> q_pend g = None -> xjoin g (local0x c (q_n g) (q_open g)) = g.
Proof. intros C P. destruct g; cbn in *; subst. unfold xjoin, local0x. cbn. rewrite !app_nil_r. reflexivity. Qed.
Lemma rshift_local0x d n c O : c < n -> (forall k j b, In (k, (j, b)) O -> j < n) ->
  rshift d n (local0x c n O) = local0x c (n + d) O.
Proof.
  intros L OB. unfold rshift, local0x. cbn. rewrite sh_lt by exact L. f_equal.
  unfold omap. rewrite <- (map_id O) at 2. apply map_ext_in. intros [k [j b]] IN. cbn. rewrite sh_lt by apply (OB k j b IN). reflexivity.
Qed.

(** a whole branch read from a state whose current atom is [c] *)
Record BlockG (g : gst) (c : nat) (p : list tok) (l' : gst) : Prop := {
  bg_run : grun false g p = Ok (xjoin g l');
  bg_stack : q_stack l' = [];
  bg_pend : q_pend l' = None;
  bg_cur : q_cur l' = Some c;
  bg_n : q_n l' = q_n g + count_atoms p;
  bg_len : q_n l' = q_n g + length (q_atoms l');
  bg_edges : forall u v b, In (u, v, b) (q_edges l') -> u < q_n l' /\ v < q_n l';
  bg_open : forall k j b, In (k, (j, b)) (q_open l') -> j < q_n l';
  bg_shift : forall d, grun false (local0x c (q_n g + d) (q_open g)) p = Ok (rshift d (q_n g) l') }.
Lemma gblock_run g c p : is_rblock p = true -> GInv g -> q_cur g = Some c -> q_pend g = None ->
  match grun false (local0x c (q_n g) (q_open g)) p with
  | Ok l' => BlockG g c p l'
  | Err e => grun false g p = Err e /\ forall d, grun false (local0x c (q_n g + d) (q_open g)) p = Err e
  end.
Proof.
  intros B GI C P. pose proof (gi_cur g GI c C) as L. pose proof (gi_edges g GI) as GB. pose proof (gi_open g GI) as GO.
  destruct p as [|t r]; [discriminate B|]. destruct t; try discriminate B. cbn [is_rblock] in B.
  set (n := q_n g) in *. set (O := q_open g) in *.
  set (l1 := {| q_atoms := []; q_edges := []; q_cur := Some c; q_n := n; q_pend := None;
                q_stack := [c]; q_open := O; q_ez := [] |}).
  assert (LI : XInv n c ZOpen 1 l1).
  { constructor; cbn; auto.
    - intros u v b [].
    - exists c. split; [reflexivity|]. split; [exact L|]. intros _ X; discriminate X.
    - split; [reflexivity|]. split; [intros x [<-|[]]; exact L|]. intros _. exists []. split; [reflexivity|intros x []]. }
  pose proof (xblk_run g n c L GB r ZOpen 1 l1 B LI ltac:(lia)) as H. unfold XConcl in H.
  assert (S0 : gstep false (local0x c n O) TOpen = Ok l1) by reflexivity.
  assert (SJ : gstep false g TOpen = Ok (xjoin g l1)).
  { rewrite <- (xjoin_local0x g c C P) at 1. fold n O. reflexivity. }
  assert (SS : forall d, gstep false (local0x c (n + d) O) TOpen = Ok (rshift d n l1)).
  { intros d. rewrite <- (rshift_local0x d n c O L GO). cbn. unfold rshift, l1. cbn. reflexivity. }
  cbn [grun]. rewrite S0, SJ. cbn [bind].
  destruct (grun false l1 r) as [l'|e].
  - destruct H as [R2 [R3 [R4 [R5 R6]]]]. destruct R3 as [N1 E1 _ [K1 _] P1 OB1].
    constructor.
    + change (grun false g (TOpen :: r)) with (g' <- gstep false g TOpen ;; grun false g' r). rewrite SJ. cbn [bind]. exact R2.
    + destruct (q_stack l'); [reflexivity|discriminate K1].
    + apply P1. discriminate.
    + exact R4.
    + rewrite R5. rewrite (count_atoms_cons TOpen r). change (count_atoms [TOpen]) with 0. unfold l1. cbn. reflexivity.
    + exact N1.
    + exact E1.
    + exact OB1.
    + intros d. cbn [grun]. rewrite SS. cbn [bind]. apply R6.
  - destruct H as [R2 R6]. split; [exact R2|]. intros d. cbn [grun]. rewrite SS. cbn [bind]. apply R6.
Qed.

(** * Part 3: the ring table matters only at the numbers a token list uses *)
Definition nums (p : list tok) : list Z := flat_map (fun t => match t with TRing _ m => [marker_val m] | _ => [] end) p.
Definition inb (z : Z) (N : list Z) : bool := existsb (Z.eqb z) N.
Definition with_open (l : gst) (O : list (Z * (nat * bondstr))) : gst :=
  {| q_atoms := q_atoms l; q_edges := q_edges l; q_cur := q_cur l; q_n := q_n l; q_pend := q_pend l;
     q_stack := q_stack l; q_open := O; q_ez := q_ez l |}.
Definition agree_on (N : list Z) (O O' : list (Z * (nat * bondstr))) : Prop :=
  forall z, inb z N = true -> ring_get z O = ring_get z O'.
Definition kept_off (N : list Z) (O1 O : list (Z * (nat * bondstr))) : Prop :=
  forall z, inb z N = false -> ring_get z O1 = ring_get z O.

Lemma frame_step N l O' t : (forall b m, t = TRing b m -> inb (marker_val m) N = true) -> agree_on N (q_open l) O' ->
  match gstep false l t, gstep false (with_open l O') t with
  | Ok l1, Ok l1' => exists O1', l1' = with_open l1 O1' /\ agree_on N (q_open l1) O1' /\
                                 kept_off N (q_open l1) (q_open l) /\ kept_off N O1' O'
  | Err e, Err e' => e = e'
  | _, _ => False
  end.
Proof.
  intros HN AG.
  destruct t as [e|body annot|b| | |b m|fw|n]; cbn [gstep];
    try (exists O'; split; [reflexivity|split; [exact AG|split; intros z _; reflexivity]]).
  unfold add_ring. cbn [with_open q_cur q_open q_edges]. destruct (q_cur l) as [a|]; [|reflexivity].
  pose proof (HN b m eq_refl) as ZN. rewrite <- (AG _ ZN).
  destruct (ring_get (marker_val m) (q_open l)) as [[j o]|].
  - destruct (merge_bond (option_map bchar b) o); cbn [bind]; [|reflexivity].
    destruct (has_edge a j (q_edges l)); [reflexivity|]. destruct (Nat.eqb a j); [reflexivity|].
    exists (ring_del (marker_val m) O'). split; [reflexivity|]. cbn [q_open]. split; [|split].
    + intros z Hz. rewrite !ring_get_del. destruct (Z.eqb z (marker_val m)); [reflexivity|apply AG; exact Hz].
    + intros z Hz. rewrite ring_get_del. destruct (Z.eqb_spec z (marker_val m)) as [->|_]; [congruence|reflexivity].
    + intros z Hz. rewrite ring_get_del. destruct (Z.eqb_spec z (marker_val m)) as [->|_]; [congruence|reflexivity].
  - exists (O' ++ [(marker_val m, (a, option_map bchar b))]). split; [reflexivity|]. cbn [q_open]. split; [|split].
    + intros z Hz. rewrite !ring_get_snoc, (AG z Hz). reflexivity.
    + intros z Hz. rewrite ring_get_snoc. destruct (ring_get z (q_open l)); [reflexivity|].
      destruct (Z.eqb_spec z (marker_val m)) as [->|_]; [congruence|reflexivity].
    + intros z Hz. rewrite ring_get_snoc. destruct (ring_get z O'); [reflexivity|].
      destruct (Z.eqb_spec z (marker_val m)) as [->|_]; [congruence|reflexivity].
Qed.
Lemma inb_nums_cons t r z : inb z (nums r) = true -> inb z (nums (t :: r)) = true.
Proof. unfold inb, nums. cbn [flat_map]. rewrite existsb_app. intros ->. apply orb_true_r. Qed.
Lemma frame_run : forall toks N l O', (forall z, inb z (nums toks) = true -> inb z N = true) -> agree_on N (q_open l) O' ->
  match grun false l toks, grun false (with_open l O') toks with
  | Ok l1, Ok l1' => exists O1', l1' = with_open l1 O1' /\ agree_on N (q_open l1) O1' /\
                                 kept_off N (q_open l1) (q_open l) /\ kept_off N O1' O'
  | Err e, Err e' => e = e'
  | _, _ => False
  end.
Proof.
  induction toks as [|t r IH]; intros N l O' HN AG; cbn [grun].
  - exists O'. split; [reflexivity|]. split; [exact AG|]. split; intros z _; reflexivity.
  - assert (HT : forall b m, t = TRing b m -> inb (marker_val m) N = true).
    { intros b m ->. apply HN. unfold inb, nums. cbn. rewrite Z.eqb_refl. reflexivity. }
    pose proof (frame_step N l O' t HT AG) as H.
    destruct (gstep false l t) as [l1|e], (gstep false (with_open l O') t) as [l1'|e']; cbn [bind]; try contradiction; [|exact H].
    destruct H as [O1' [-> [AG1 [K1 K1']]]].
    pose proof (IH N l1 O1' (fun z Hz => HN z (inb_nums_cons t r z Hz)) AG1) as H2.
    destruct (grun false l1 r) as [l2|e], (grun false (with_open l1 O1') r) as [l2'|e']; try contradiction; [|exact H2].
    destruct H2 as [O2' [-> [AG2 [K2 K2']]]]. exists O2'. split; [reflexivity|]. split; [exact AG2|]. split.
    + intros z Hz. rewrite (K2 z Hz). apply K1. exact Hz.
    + intros z Hz. rewrite (K2' z Hz). apply K1'. exact Hz.
Qed.

Lemma run_kept c n O p l' : grun false (local0x c n O) p = Ok l' -> kept_off (nums p) (q_open l') O.
Proof.
  intros H. pose proof (frame_run p (nums p) (local0x c n O) O (fun z Hz => Hz) (fun z _ => eq_refl)) as F.
  change (with_open (local0x c n O) O) with (local0x c n O) in F. rewrite H in F.
  destruct F as [O1' [_ [_ [K _]]]]. exact K.
Qed.

Definition disj (pa pb : list tok) : Prop := forall z, inb z (nums pa) = true -> inb z (nums pb) = false.
Lemma disj_sym pa pb : disj pa pb -> disj pb pa.
Proof. intros D z Hz. destruct (inb z (nums pa)) eqn:E; [|reflexivity]. rewrite (D z E) in Hz. discriminate Hz. Qed.

(** running a second branch after a first one that uses other ring numbers *)
Lemma second_g g c p1 l1 p2 : GInv g -> q_cur g = Some c -> q_pend g = None ->
  BlockG g c p1 l1 -> grun false (local0x c (q_n g) (q_open g)) p1 = Ok l1 -> is_rblock p2 = true -> disj p2 p1 ->
  match grun false (local0x c (q_n g) (q_open g)) p2 with
  | Ok l2 => exists O2, grun false g (p1 ++ p2) = Ok (xjoin (xjoin g l1) (with_open (rshift (count_atoms p1) (q_n g) l2) O2)) /\
                 agree_on (nums p2) (q_open (rshift (count_atoms p1) (q_n g) l2)) O2 /\ kept_off (nums p2) O2 (q_open l1)
  | Err e => grun false g (p1 ++ p2) = Err e
  end.
Proof.
  intros GI C P [R1 K1 P1 C1 N1 L1 E1 OB1 S1] RL1 B2 DJ.
  pose proof (gi_cur g GI c C) as CN.
  set (g1 := xjoin g l1).
  assert (GI1 : GInv g1).
  { constructor; unfold g1, xjoin; cbn.
    - rewrite app_length, (gi_len g GI). lia.
    - intros u v b IN. apply in_app_or in IN. destruct IN as [IN|IN]; [destruct (gi_edges g GI u v b IN); lia|apply (E1 u v b IN)].
    - intros c0 Hc. rewrite C1 in Hc. inversion Hc; subst. lia.
    - rewrite K1. cbn. intros x IN. pose proof (gi_stack g GI x IN). lia.
    - exact OB1. }
  pose proof (gblock_run g1 c p2 B2 GI1 C1 P1) as H1. cbn [g1 xjoin q_n q_open] in H1. rewrite N1 in H1.
  pose proof (gblock_run g c p2 B2 GI C P) as H0.
  assert (AG : agree_on (nums p2) (q_open (local0x c (q_n g + count_atoms p1) (q_open g))) (q_open l1)).
  { intros z Hz. cbn. symmetry. apply (run_kept c (q_n g) (q_open g) p1 l1 RL1). apply DJ. exact Hz. }
  pose proof (frame_run p2 (nums p2) (local0x c (q_n g + count_atoms p1) (q_open g)) (q_open l1) (fun z Hz => Hz) AG) as F.
  change (with_open (local0x c (q_n g + count_atoms p1) (q_open g)) (q_open l1)) with (local0x c (q_n g + count_atoms p1) (q_open l1)) in F.
  rewrite (grun_app_ok false g p1 p2 _ R1). fold g1.
  destruct (grun false (local0x c (q_n g) (q_open g)) p2) as [l2|e].
  - destruct H0 as [_ _ _ _ _ _ _ _ SH]. rewrite (SH (count_atoms p1)) in F.
    destruct (grun false (local0x c (q_n g + count_atoms p1) (q_open l1)) p2) as [l2'|e']; [|contradiction].
    destruct F as [O2 [-> [AG2 [_ K2]]]]. exists O2. destruct H1 as [R2 _ _ _ _ _ _ _ _]. split; [exact R2|]. split; [exact AG2|exact K2].
  - destruct H0 as [_ SH]. rewrite (SH (count_atoms p1)) in F.
    destruct (grun false (local0x c (q_n g + count_atoms p1) (q_open l1)) p2) as [l2'|e']; [contradiction|]. subst e'. destruct H1 as [R2 _]. exact R2.
Qed.

Lemma gswap_blocks g c pa pb : GInv g -> q_cur g = Some c -> q_pend g = None ->
  is_rblock pa = true -> is_rblock pb = true -> disj pa pb ->
  match grun false g (pa ++ pb), grun false g (pb ++ pa) with
  | Ok gab, Ok gba => PSimE (swap_sigma (q_n g) (count_atoms pa) (count_atoms pb)) gab gba /\
                      q_n gab = q_n g + count_atoms pa + count_atoms pb
  | Err e, Err e' => e = e'
  | _, _ => False
  end.
Proof.
  intros GI C P BA BB DJ. pose proof (gi_cur g GI c C) as CN. pose proof (disj_sym _ _ DJ) as DJ'.
  pose proof (gblock_run g c pa BA GI C P) as HA.
  pose proof (gblock_run g c pb BB GI C P) as HB.
  set (n := q_n g) in *. set (O := q_open g) in *. set (a := count_atoms pa). set (b := count_atoms pb).
  destruct (grun false (local0x c n O) pa) as [la|ea] eqn:ELA.
  - destruct (grun false (local0x c n O) pb) as [lb|eb] eqn:ELB.
    + pose proof (second_g g c pa la pb GI C P HA ELA BB DJ') as R1. fold n O in R1. rewrite ELB in R1. fold a in R1.
      pose proof (second_g g c pb lb pa GI C P HB ELB BA DJ) as R2. fold n O in R2. rewrite ELA in R2. fold b in R2.
      destruct R1 as [Ob2 [R1 [A1 K1]]]. destruct R2 as [Oa2 [R2 [A2 K2]]]. rewrite R1, R2.
      pose proof (run_kept c n O pa la ELA) as KA. pose proof (run_kept c n O pb lb ELB) as KB.
      destruct HA as [_ KSA PA CA NA LA EA OBA _]. destruct HB as [_ KSB PB CB NB LB EB OBB _].
      fold n in NA, LA, NB, LB. fold a in NA. fold b in NB.
      assert (LenA : length (q_atoms la) = a) by lia. assert (LenB : length (q_atoms lb) = b) by lia.
      split; [|cbn; lia].
      constructor; cbn [xjoin rshift with_open q_atoms q_edges q_cur q_n q_pend q_stack q_open q_ez].
      * lia.
      * rewrite !app_length. rewrite (gi_len g GI). fold n. lia.
      * rewrite !app_length. rewrite (gi_len g GI). fold n. lia.
      * intros i L. unfold swap_sigma. pose proof (gi_len g GI) as GL. fold n in GL.
        destruct (Nat.ltb_spec i n).
        -- rewrite <- !app_assoc. rewrite !nth_error_app1 by lia. reflexivity.
        -- destruct (Nat.ltb_spec i (n + a)).
           ++ rewrite (nth_error_app1 (q_atoms g ++ q_atoms la)) by (rewrite app_length; lia).
              rewrite (nth_error_app2 (q_atoms g)) by lia.
              rewrite (nth_error_app2 (q_atoms g ++ q_atoms lb)) by (rewrite app_length; lia).
              rewrite app_length. f_equal. lia.
           ++ destruct (Nat.ltb_spec i (n + a + b)); [|lia].
              rewrite (nth_error_app2 (q_atoms g ++ q_atoms la)) by (rewrite app_length; lia).
              rewrite (nth_error_app1 (q_atoms g ++ q_atoms lb)) by (rewrite app_length; lia).
              rewrite (nth_error_app2 (q_atoms g)) by lia.
              rewrite app_length. f_equal. lia.
      * rewrite !map_app.
        rewrite (map_emap_id _ (q_edges g) n (gi_edges g GI)) by (intros x X; apply swap_sigma_lt; exact X).
        assert (EAsh : map (emap (swap_sigma n a b)) (q_edges la) = map (emap (sh b n)) (q_edges la)).
        { apply (map_emap_ext (swap_sigma n a b) (sh b n) (q_edges la) (n + a)).
          - intros u v b0 IN. pose proof (EA u v b0 IN). lia.
          - intros x X. unfold swap_sigma, sh. destruct (Nat.ltb_spec x n); [reflexivity|]. destruct (Nat.ltb_spec x (n + a)); lia. }
        rewrite EAsh.
        assert (EBid : map (emap (swap_sigma n a b)) (map (emap (sh a n)) (q_edges lb)) = q_edges lb).
        { rewrite map_map. rewrite <- (map_id (q_edges lb)) at 2. apply map_ext_in. intros [[u v] b0] IN. cbn.
          pose proof (EB u v b0 IN) as [U V].
          assert (Q : forall x, x < n + b -> swap_sigma n a b (sh a n x) = x).
          { intros x X. unfold swap_sigma, sh. destruct (Nat.ltb_spec x n).
            - destruct (Nat.ltb_spec x n); [reflexivity|lia].
            - destruct (Nat.ltb_spec (x + a) n); [lia|]. destruct (Nat.ltb_spec (x + a) (n + a)); [lia|].
              destruct (Nat.ltb_spec (x + a) (n + a + b)); lia. }
          rewrite (Q u), (Q v) by lia. reflexivity. }
        rewrite EBid. rewrite <- !app_assoc. apply Permutation_app_head. apply Permutation_app_comm.
      * rewrite CA, CB. cbn [option_map]. rewrite !sh_lt, swap_sigma_lt by lia. reflexivity.
      * rewrite KSA, KSB. cbn. symmetry. rewrite <- (map_id (q_stack g)) at 2. apply map_ext_in.
        intros x IN. pose proof (gi_stack g GI x IN). apply swap_sigma_lt. assumption.
      * (* the ring table, by look-up *)
        cbn [rshift q_open] in A1, A2.
        assert (ID : forall (X : option (nat * bondstr)) m, (forall j o, X = Some (j, o) -> j < m) ->
                  forall f f' : nat -> nat, (forall j, j < m -> f j = f' j) -> option_map (omap1 f) X = option_map (omap1 f') X).
        { intros X m HX f f' Hf. destruct X as [[j o]|]; [|reflexivity]. cbn. unfold omap1. cbn. rewrite (Hf j (HX j o eq_refl)). reflexivity. }
        intros z. destruct (inb z (nums pa)) eqn:ZA.
        -- rewrite <- (A2 z ZA), (K1 z (DJ z ZA)). change (fun kv => (fst kv, (sh b n (fst (snd kv)), snd (snd kv)))) with (fun kv : Z * (nat * bondstr) => (fst kv, (sh b n (fst (snd kv)), snd (snd kv)))).
           fold (omap (sh b n) (q_open la)). rewrite ring_get_omap. fold (omap1 (sh b n)).
           apply (ID _ (n + a)).
           ++ intros j o Hj. pose proof (OBA z j o (ring_get_in _ _ _ _ Hj)). lia.
           ++ intros j Hj. unfold swap_sigma, sh. destruct (Nat.ltb_spec j n); [reflexivity|]. destruct (Nat.ltb_spec j (n + a)); lia.
        -- rewrite (K2 z ZA). destruct (inb z (nums pb)) eqn:ZB.
           ++ rewrite <- (A1 z ZB). fold (omap (sh a n) (q_open lb)). rewrite ring_get_omap.
              destruct (ring_get z (q_open lb)) as [[j o]|] eqn:EG; [|reflexivity]. cbn. unfold omap1. cbn.
              pose proof (OBB z j o (ring_get_in _ _ _ _ EG)) as JB.
              assert (Q : swap_sigma n a b (sh a n j) = j).
              { unfold swap_sigma, sh. destruct (Nat.ltb_spec j n).
                - destruct (Nat.ltb_spec j n); [reflexivity|lia].
                - destruct (Nat.ltb_spec (j + a) n); [lia|]. destruct (Nat.ltb_spec (j + a) (n + a)); [lia|].
                  destruct (Nat.ltb_spec (j + a) (n + a + b)); lia. }
              rewrite Q. reflexivity.
           ++ rewrite (KB z ZB), (K1 z ZB), (KA z ZA).
              destruct (ring_get z O) as [[j o]|] eqn:EG; [|reflexivity]. cbn. unfold omap1. cbn.
              pose proof (gi_open g GI z j o (ring_get_in _ _ _ _ EG)) as JB. fold n in JB.
              rewrite swap_sigma_lt by exact JB. reflexivity.
      * rewrite PA, PB. reflexivity.
      * reflexivity.
    + pose proof (second_g g c pa la pb GI C P HA ELA BB DJ') as R1. fold n O in R1. rewrite ELB in R1.
      destruct HB as [RB0 _]. rewrite R1, (grun_app false pb g pa), RB0. reflexivity.
  - destruct HA as [RA0 SA].
    rewrite (grun_app false pa g pb), RA0. cbn [bind].
    destruct (grun false g (pb ++ pa)) as [gba|e'] eqn:E2.
    + destruct (grun false (local0x c n O) pb) as [lb|eb] eqn:ELB.
      * pose proof (second_g g c pb lb pa GI C P HB ELB BA DJ) as R2. fold n O in R2. rewrite ELA in R2.
        rewrite R2 in E2. discriminate E2.
      * destruct HB as [RB0 _]. rewrite (grun_app false pb g pa), RB0 in E2. discriminate E2.
    + rewrite (grun_err_value _ _ _ RA0). symmetry. apply (grun_err_value _ _ _ E2).
Qed.

Theorem gswap_branches_base x pa pb y g c :
  grun false ginit x = Ok g -> q_cur g = Some c -> q_pend g = None ->
  is_rblock pa = true -> is_rblock pb = true -> disj pa pb ->
  let s := swap_sigma (q_n g) (count_atoms pa) (count_atoms pb) in
  match graph_base false (x ++ pa ++ pb ++ y), graph_base false (x ++ pb ++ pa ++ y) with
  | Ok b1, Ok b2 => exists n, base_perm s n b1 b2 /\ sigma_ok s n
  | Err e, Err e' => e = e'
  | _, _ => False
  end.
Proof.
  intros RX C P BA BB DJ s. pose proof (grun_ginv false x ginit g ginit_inv RX) as GI.
  pose proof (gswap_blocks g c pa pb GI C P BA BB DJ) as SW. fold s in SW.
  unfold graph_base. rewrite !(grun_app_ok false ginit x _ g RX). rewrite !app_assoc.
  rewrite (grun_app false (pa ++ pb) g y), (grun_app false (pb ++ pa) g y).
  destruct (grun false g (pa ++ pb)) as [gab|e1], (grun false g (pb ++ pa)) as [gba|e2]; cbn [bind]; try contradiction; [|exact SW].
  destruct SW as [PS NAB].
  assert (SO : sigma_ok s (q_n gab)) by (rewrite NAB; apply swap_sigma_ok).
  pose proof (grun_psime s y gab gba SO PS) as H.
  destruct (grun false gab y) as [g1|e], (grun false gba y) as [h1|e']; cbn [bind]; try contradiction; [|exact H].
  destruct H as [[N LG LH A E _ _ _ _ Z] SO1]. exists (q_n g1). split; [|exact SO1].
  unfold base_perm. repeat split; auto. lia.
Qed.
