(** FragTextX: the domain of C13 with a bond symbol directly in front of "(" — the documented
    placement of the order of a branch edge in a coarse fragment, `[#A]=([#B])[#C]` (Appendix A).
    [wfx_items] is [FragText.wf_items] with one more transition: "(" may follow a bond symbol
    (zone ZBond) as well as an atom.  [wf_items] itself is left as it is (other components compute
    with it); every text of the old domain is in the new one ([wf_items_wfx]).  No proofs of the
    machine here. *)
From Coq Require Import String.
From Coq Require Import List Ascii ZArith Bool.
From CGV Require Import Base.PyBase Base.PyVal Frag.NDict Frag.FragText.
Import ListNotations.

Definition branch_zone (z : zone) : bool := match z with ZAtom | ZBond => true | _ => false end.
Fixpoint wfx_items (z : zone) (depth : nat) (items : list ditem) : bool :=
  match items with
  | [] => is_zatom z && Nat.eqb depth 0
  | ILead d :: r => match z with ZStart => desc_ok d && wfx_items ZStart depth r | _ => false end
  | IDesc d :: r => is_zatom z && desc_ok d && wfx_items ZAtom depth r
  | ITok t :: r =>
      tok_ok t &&
      match t with
      | TAtom _ | TBracket _ _ => wfx_items ZAtom depth r
      | TBond _ | TSlash _ => match z with ZAtom | ZOpen => wfx_items ZBond depth r | _ => false end
      | TOpen => branch_zone z && wfx_items ZOpen (Datatypes.S depth) r
      | TClose => is_zatom z && match depth with O => false | Datatypes.S d => wfx_items ZAtom d r end
      | TRing _ _ | TMult _ => is_zatom z && wfx_items ZAtom depth r
      end
  end.
Definition wfx (toks : list tok) (dc : decor) : bool :=
  Nat.leb (length (d_after dc)) (length toks) && wfx_items ZStart 0 (decorate toks dc).

Lemma wf_items_wfx : forall items z depth, wf_items z depth items = true -> wfx_items z depth items = true.
Proof.
  induction items as [|i r IH]; intros z depth H; [exact H|].
  destruct i as [d|t|d]; cbn [wf_items wfx_items] in *.
  - destruct z; try discriminate H. apply andb_prop in H. destruct H as [H1 H2]. rewrite H1, (IH _ _ H2). reflexivity.
  - apply andb_prop in H. destruct H as [Ht H]. rewrite Ht. cbn [andb].
    destruct t; try (apply IH; exact H).
    + destruct z; try discriminate H; apply IH; exact H.
    + apply andb_prop in H. destruct H as [Hz H]. destruct z; try discriminate Hz. cbn. apply IH. exact H.
    + apply andb_prop in H. destruct H as [Hz H]. rewrite Hz. cbn [andb]. destruct depth; [discriminate H|]. apply IH. exact H.
    + apply andb_prop in H. destruct H as [Hz H]. rewrite Hz. cbn [andb]. apply IH. exact H.
    + destruct z; try discriminate H; apply IH; exact H.
    + apply andb_prop in H. destruct H as [Hz H]. rewrite Hz. cbn [andb]. apply IH. exact H.
  - apply andb_prop in H. destruct H as [H H3]. rewrite H. cbn [andb]. apply IH. exact H3.
Qed.
Lemma wf_wfx toks dc : wf toks dc = true -> wfx toks dc = true.
Proof.
  unfold wf, wfx. intros H. apply andb_prop in H. destruct H as [H1 H2]. rewrite H1. cbn [andb]. apply wf_items_wfx. exact H2.
Qed.
