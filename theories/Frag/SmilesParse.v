(** SmilesParse: Impl model of the part of the third-party pysmiles (2.1.0, /venv) that turns the
    clean fragment text into a graph: read_smiles._tokenize, read_smiles.base_smiles_parser
    (strict=False), smiles_helper.parse_atom (with parse_hcount / parse_charge and the regular
    expression ATOM_PATTERN) and the bond-order loop of read_smiles (explicit_hydrogen and
    reinterpret_aromatic do not act before that point).  The constants (organic subset, bond
    characters, bond_to_order, defaults) are regenerated from the installed source (Gen/SmilesGen.v);
    the regular expression is transcribed by hand and the generator fails when the pattern texts
    differ from the transcribed ones.  Executable, total, no proofs here.

    Like the strip machine, the tokenizer+parser is ONE pass over the characters: a pending
    [next(smiles)] / look-ahead of _tokenize is a [pmode]; every token is handed to the parser at
    once (the tokenizer is a generator: its errors and the parser's errors interleave in text
    order, which a two-phase model would get wrong). *)
From Coq Require Import String.
From Coq Require Import List Ascii ZArith Bool.
From CGV Require Import Base.PyBase Base.PyVal Gen.SmilesGen Frag.NDict.
Import ListNotations.

(** * a small backtracking regular-expression matcher (Python [re] semantics for the operators
      that ATOM_PATTERN uses: ordered alternation, greedy optional, greedy one-or-more of a
      character class, named groups) *)
Inductive re :=
| RChr (c : ascii) | RSet (f : ascii -> bool) | REps
| RSeq (a b : re) | RAlt (a b : re) | ROpt (a : re)
| RPlus (f : ascii -> bool)
| RGroup (name : pystr) (a : re).
Definition genv := list (pystr * pystr).
Fixpoint gset (k v : pystr) (e : genv) : genv :=
  match e with
  | [] => [(k, v)]
  | (k', v') :: r => if str_eqb k k' then (k', v) :: r else (k', v') :: gset k v r
  end.
Fixpoint gget (k : pystr) (e : genv) : option pystr :=
  match e with [] => None | (k', v) :: r => if str_eqb k k' then Some v else gget k r end.
Fixpoint plus_class (f : ascii -> bool) (s : pystr) (k : pystr -> option genv) : option genv :=
  match s with
  | c :: r => if f c then match plus_class f r k with Some e => Some e | None => k r end else None
  | [] => None
  end.
Fixpoint rmatch (r : re) (s : pystr) (env : genv) (k : pystr -> genv -> option genv) : option genv :=
  match r with
  | RChr c => match s with x :: t => if Ascii.eqb x c then k t env else None | [] => None end
  | RSet f => match s with x :: t => if f x then k t env else None | [] => None end
  | REps => k s env
  | RSeq a b => rmatch a s env (fun s' env' => rmatch b s' env' k)
  | RAlt a b => match rmatch a s env k with Some e => Some e | None => rmatch b s env k end
  | ROpt a => match rmatch a s env k with Some e => Some e | None => k s env end
  | RPlus f => plus_class f s (fun s' => k s' env)
  | RGroup n a => rmatch a s env (fun s' env' => k s' (gset n (firstn (length s - length s') s) env'))
  end.
Fixpoint rstr (s : pystr) : re := match s with [] => REps | c :: r => RSeq (RChr c) (rstr r) end.
Fixpoint ralts (l : list re) : re := match l with [] => RSet (fun _ => false) | [a] => a | a :: r => RAlt a (ralts r) end.

Definition is_upper (c : ascii) : bool := let n := nat_of_ascii c in (65 <=? n)%nat && (n <=? 90)%nat.
Definition is_lower (c : ascii) : bool := let n := nat_of_ascii c in (97 <=? n)%nat && (n <=? 122)%nat.
Definition is_12 (c : ascii) : bool := Ascii.eqb c "1" || Ascii.eqb c "2".
Definition is_123 (c : ascii) : bool := is_12 c || Ascii.eqb c "3".
Definition is_plus (c : ascii) : bool := Ascii.eqb c "+".
Definition is_minus (c : ascii) : bool := Ascii.eqb c "-".
Definition d12 : re := RSeq (RSet is_digit) (ROpt (RSet is_digit)).          (* [\d]{1,2} *)

(** ISOTOPE ELEMENT STEREO HCOUNT CHARGE CLASS, between ^\[ and \]$ *)
Definition atom_pattern : re :=
  RSeq (RChr "[")
  (RSeq (ROpt (RGroup (S "isotope") (RPlus is_digit)))
  (RSeq (RGroup (S "element")
           (ralts [rstr (S "b"); rstr (S "c"); rstr (S "n"); rstr (S "o"); rstr (S "s"); rstr (S "p");
                   rstr (S "as"); rstr (S "se"); rstr (S "*");
                   RSeq (RSet is_upper) (ROpt (RSeq (RSet is_lower) (ROpt (RSet is_lower))))]))
  (RSeq (ROpt (RGroup (S "rs_isomer")
           (ralts [rstr (S "@"); rstr (S "@@"); RSeq (rstr (S "@TH")) (RSet is_12); RSeq (rstr (S "@AL")) (RSet is_12);
                   RSeq (rstr (S "@SP")) (RSet is_123); RSeq (rstr (S "@OH")) d12; RSeq (rstr (S "@TB")) d12])))
  (RSeq (ROpt (RGroup (S "hcount") (RSeq (RChr "H") (ROpt (RSet is_digit)))))
  (RSeq (ROpt (RGroup (S "charge")
           (RSeq (RAlt (RChr "-") (RChr "+")) (ROpt (ralts [RPlus is_plus; RPlus is_minus; d12])))))
  (RSeq (ROpt (RSeq (RChr ":") (RGroup (S "class") (RPlus is_digit))))
        (RChr "]"))))))).
Definition atom_match (atom : pystr) : option genv :=
  rmatch atom_pattern atom [] (fun s env => match s with [] => Some env | _ => None end).

(** * parse_atom *)
Definition to_upper (c : ascii) : ascii := if is_lower c then ascii_of_nat (nat_of_ascii c - 32) else c.
Definition to_lower (c : ascii) : ascii := if is_upper c then ascii_of_nat (nat_of_ascii c + 32) else c.
Definition capitalize (s : pystr) : pystr := match s with [] => [] | c :: r => to_upper c :: map to_lower r end.
(** str.islower(): at least one cased character and no upper-case one *)
Definition py_islower (s : pystr) : bool := existsb is_lower s && negb (existsb is_upper s).
Definition parse_hcount (h : pystr) : Z :=
  match h with [] => 0 | [_] => 1 | _ :: r => digits_val 0 r end%Z.
Definition parse_charge (c : pystr) : Z :=
  match c with
  | [] => 0%Z
  | s :: r =>
      let sign := if Ascii.eqb s "-" then (-1)%Z else 1%Z in
      match r with
      | d :: _ => if is_digit d then (sign * digits_val 0 r)%Z else (sign * Z.of_nat (py_count c s))%Z
      | [] => (sign * Z.of_nat (py_count c s))%Z
      end
  end.
Definition starts_with_lbr (s : pystr) : bool := match s with c :: _ => Ascii.eqb c "[" | [] => false end.
Definition ends_with_rbr (s : pystr) : bool := match rev s with c :: _ => Ascii.eqb c "]" | [] => false end.
Definition parse_atom (atom : pystr) : res attrs :=
  if negb (starts_with_lbr atom) && negb (ends_with_rbr atom) then
    if negb (str_eqb atom (S "*"))
    then Ok [(S "element", VStr (capitalize atom)); (S "charge", VInt 0); (S "aromatic", VBool (py_islower atom))]
    else Ok smiles_atom_defaults
  else match atom_match atom with
  | None => Err EValue                                       (* The atom … is malformatted *)
  | Some g =>
      let element := gget (S "element") g in
      let arom := match element with Some e => py_islower e | None => false end in
      let hcount := match gget (S "hcount") g with Some h => parse_hcount h | None => 0%Z end in
      let charge := match gget (S "charge") g with Some c => parse_charge c | None => 0%Z end in
      let el := match element with Some e => capitalize e | None => S "*" end in
      if str_eqb el (S "H") && negb (Z.eqb hcount 0) then Err EValue     (* A hydrogen atom can't have hydrogens *)
      else
        Ok ([(S "charge", VInt charge); (S "hcount", VInt hcount); (S "aromatic", VBool arom)]
            ++ (match gget (S "isotope") g with Some i => [(S "isotope", VInt (digits_val 0 i))] | None => [] end)
            ++ (if str_eqb el (S "*") then [] else [(S "element", VStr el)])
            ++ (match gget (S "rs_isomer") g with Some r => [(S "rs_isomer", VStr r)] | None => [] end)
            ++ (match gget (S "class") g with Some c => [(S "class", VInt (digits_val 0 c))] | None => [] end))
  end.

(** * int() of the text after '%' (at most two characters): surrounding blanks and a sign are
      accepted by Python *)
Fixpoint drop_space (s : pystr) : pystr := match s with c :: r => if is_space c then drop_space r else s | [] => [] end.
Definition py_int_text (s : pystr) : res Z :=
  let t := rev (drop_space (rev (drop_space s))) in
  match t with
  | c :: r =>
      if Ascii.eqb c "-" then (if py_isdigit r then Ok (- digits_val 0 r)%Z else Err EValue)
      else if Ascii.eqb c "+" then (if py_isdigit r then Ok (digits_val 0 r) else Err EValue)
      else if py_isdigit t then Ok (digits_val 0 t) else Err EValue
  | [] => Err EValue
  end.

(** * tokenizer + base_smiles_parser as one character machine *)
Inductive pmode :=
| PTop
| PBracket (tok : pystr)          (* inside [...]: [for char in smiles] *)
| PElem (c : ascii)               (* organic atom character read: [peek = next(smiles, '')] pending *)
| PPct0                           (* after '%': first [next(smiles, '')] pending *)
| PPct1 (c : ascii).              (* after '%c': second [next(smiles, '')] pending *)

Definition bondstr := option ascii.          (* None = no bond symbol (None or "" in the Python code) *)
Record pst := {
  p_mode : pmode;
  p_atoms : list pystr;                      (* node i = i-th atom token, with its text *)
  p_edges : list (nat * nat * bondstr);      (* in creation order *)
  p_anchor : option nat;
  p_idx : nat;
  p_next_bond : bondstr;
  p_branches : list nat;
  p_rings : list (Z * (nat * bondstr));      (* ring_nums *)
  p_ez : list (option nat * ascii) }.        (* ez_isomer_atoms, the key may be None *)
Definition pinit : pst :=
  {| p_mode := PTop; p_atoms := []; p_edges := []; p_anchor := None; p_idx := 0; p_next_bond := None;
     p_branches := []; p_rings := []; p_ez := [] |}.
Definition pset_mode (p : pst) (md : pmode) : pst :=
  {| p_mode := md; p_atoms := p_atoms p; p_edges := p_edges p; p_anchor := p_anchor p; p_idx := p_idx p;
     p_next_bond := p_next_bond p; p_branches := p_branches p; p_rings := p_rings p; p_ez := p_ez p |}.

Definition has_edge (a b : nat) (es : list (nat * nat * bondstr)) : bool :=
  existsb (fun e => let '(u, v, _) := e in (Nat.eqb u a && Nat.eqb v b) || (Nat.eqb u b && Nat.eqb v a)) es.
Fixpoint ring_get (z : Z) (r : list (Z * (nat * bondstr))) : option (nat * bondstr) :=
  match r with [] => None | (k, v) :: t => if Z.eqb z k then Some v else ring_get z t end.
Definition ring_del (z : Z) (r : list (Z * (nat * bondstr))) := filter (fun kv => negb (Z.eqb z (fst kv))) r.
Definition okey_eqb (a b : option nat) : bool :=
  match a, b with Some x, Some y => Nat.eqb x y | None, None => true | _, _ => false end.
Fixpoint ez_set (k : option nat) (c : ascii) (d : list (option nat * ascii)) : list (option nat * ascii) :=
  match d with
  | [] => [(k, c)]
  | (k', y) :: r => if okey_eqb k k' then (k', c) :: r else (k', y) :: ez_set k c r
  end.

(** TokenType.ATOM *)
Definition on_atom (p : pst) (tok : pystr) : pst :=
  {| p_mode := PTop; p_atoms := p_atoms p ++ [tok];
     p_edges := match p_anchor p with Some a => p_edges p ++ [(a, p_idx p, p_next_bond p)] | None => p_edges p end;
     p_anchor := Some (p_idx p); p_idx := Datatypes.S (p_idx p);
     p_next_bond := match p_anchor p with Some _ => None | None => p_next_bond p end;
     p_branches := p_branches p; p_rings := p_rings p; p_ez := p_ez p |}.
(** TokenType.RING_NUM *)
Definition on_ring (p : pst) (z : Z) : res pst :=
  match p_anchor p with
  | None => Err EValue                                        (* Can't have a marker before an atom *)
  | Some a =>
      match ring_get z (p_rings p) with
      | Some (jdx, order) =>
          nb <- (match p_next_bond p, order with
                 | None, None => Ok None
                 | Some x, None => Ok (Some x)
                 | None, Some y => Ok (Some y)
                 | Some x, Some y => if Ascii.eqb x y then Ok (Some x) else Err EValue   (* Conflicting bond orders *)
                 end) ;;
          if has_edge a jdx (p_edges p) then Err EValue         (* Edge specified by marker already exists *)
          else if Nat.eqb a jdx then Err EValue                 (* bond between an atom and itself *)
          else Ok {| p_mode := PTop; p_atoms := p_atoms p; p_edges := p_edges p ++ [(a, jdx, nb)];
                     p_anchor := p_anchor p; p_idx := p_idx p; p_next_bond := None;
                     p_branches := p_branches p; p_rings := ring_del z (p_rings p); p_ez := p_ez p |}
      | None =>
          Ok {| p_mode := PTop; p_atoms := p_atoms p; p_edges := p_edges p;
                p_anchor := p_anchor p; p_idx := p_idx p; p_next_bond := None;
                p_branches := p_branches p; p_rings := p_rings p ++ [(z, (a, p_next_bond p))]; p_ez := p_ez p |}
      end
  end.

Definition organic1 (c : ascii) : bool := str_in [c] smiles_organic_subset.
Definition organic2 (c0 c : ascii) : bool := str_in [c0; c] smiles_organic_subset.

(** the if/elif chain of _tokenize on one character, each token handed to base_smiles_parser *)
Definition ptop_step (p : pst) (c : ascii) : res pst :=
  if Ascii.eqb c "[" then Ok (pset_mode p (PBracket [c]))
  else if organic1 c then Ok (pset_mode p (PElem c))
  else if char_in c smiles_bond_chars then
    match p_next_bond p with
    | Some _ => Err EValue                                      (* Previous bond not used *)
    | None => Ok {| p_mode := PTop; p_atoms := p_atoms p; p_edges := p_edges p; p_anchor := p_anchor p;
                    p_idx := p_idx p; p_next_bond := Some c; p_branches := p_branches p;
                    p_rings := p_rings p; p_ez := p_ez p |}
    end
  else if Ascii.eqb c "(" then
    match p_anchor p with
    | None => Err (ESyntax (S "branch_before_anchor"))
    | Some a => Ok {| p_mode := PTop; p_atoms := p_atoms p; p_edges := p_edges p; p_anchor := p_anchor p;
                      p_idx := p_idx p; p_next_bond := p_next_bond p; p_branches := a :: p_branches p;
                      p_rings := p_rings p; p_ez := p_ez p |}
    end
  else if Ascii.eqb c ")" then
    match p_branches p with
    | [] => Err EIndex                                           (* pop from empty list *)
    | a :: rest => Ok {| p_mode := PTop; p_atoms := p_atoms p; p_edges := p_edges p; p_anchor := Some a;
                         p_idx := p_idx p; p_next_bond := p_next_bond p; p_branches := rest;
                         p_rings := p_rings p; p_ez := p_ez p |}
    end
  else if Ascii.eqb c "%" then Ok (pset_mode p PPct0)
  else if char_in c smiles_ez_chars then
    Ok {| p_mode := PTop; p_atoms := p_atoms p; p_edges := p_edges p; p_anchor := p_anchor p;
          p_idx := p_idx p; p_next_bond := p_next_bond p; p_branches := p_branches p; p_rings := p_rings p;
          p_ez := ez_set (Some (p_idx p)) c (ez_set (p_anchor p) c (p_ez p)) |}
  else if is_digit c then on_ring p (Z.of_nat (digit_val c))
  else Ok p.                                                      (* any other character is skipped *)

Definition pflush (p : pst) : pst :=
  match p_mode p with PElem c0 => on_atom p [c0] | _ => p end.
Definition pcombines (p : pst) (c : ascii) : bool :=
  match p_mode p with PElem c0 => organic2 c0 c | _ => false end.

Definition pstep (p : pst) (c : ascii) : res pst :=
  match p_mode p with
  | PTop => ptop_step p c
  | PBracket tok => if Ascii.eqb c "]" then Ok (on_atom p (tok ++ [c])) else Ok (pset_mode p (PBracket (tok ++ [c])))
  | PElem c0 => if pcombines p c then Ok (on_atom p [c0; c]) else ptop_step (pflush p) c
  | PPct0 => Ok (pset_mode p (PPct1 c))
  | PPct1 c1 => z <- py_int_text [c1; c] ;; on_ring (pset_mode p PTop) z
  end.
Fixpoint prun (p : pst) (s : pystr) : res pst :=
  match s with [] => Ok p | c :: r => p' <- pstep p c ;; prun p' r end.
(** end of the text *)
Definition pfinish (p : pst) : res pst :=
  match p_mode p with
  | PTop => Ok p
  | PBracket _ => Err (ESyntax (S "unmatched_bracket"))
  | PElem _ => Ok (pflush p)
  | PPct0 => Err EValue                                          (* int('') *)
  | PPct1 c1 => z <- py_int_text [c1] ;; on_ring (pset_mode p PTop) z
  end.

(** what base_smiles_parser returns: atom texts, edges with bond strings, the slash marks *)
Definition base_obs := (list pystr * list (nat * nat * bondstr) * list (option nat * ascii))%type.
Definition base_smiles_parser (smiles : pystr) : res base_obs :=
  p <- prun pinit smiles ;; p' <- pfinish p ;; Ok (p_atoms p', p_edges p', p_ez p').

(** * read_smiles up to the bond orders *)
Fixpoint map_res {A B} (f : A -> res B) (l : list A) : res (list B) :=
  match l with [] => Ok [] | x :: r => y <- f x ;; ys <- map_res f r ;; Ok (y :: ys) end.
Definition node_aromatic (nodes : list attrs) (i : nat) : bool :=
  match nth_error nodes i with
  | Some a => match aget (S "aromatic") a with Some v => truthy v | None => false end
  | None => false
  end.
Definition edge_order (nodes : list attrs) (e : nat * nat * bondstr) : res (nat * nat * pyval) :=
  let '(u, v, b) := e in
  match b with
  | Some c => o <- smiles_bond_to_order_lookup [c] ;; Ok (u, v, o)
  | None => if node_aromatic nodes u && node_aromatic nodes v then Ok (u, v, smiles_default_aromatic_bond)
            else Ok (u, v, smiles_default_bond)
  end.
Record sgraph := { g_nodes : list attrs; g_edges : list (nat * nat * pyval); g_ez : list (option nat * ascii) }.
Definition interpret (b : base_obs) : res sgraph :=
  let '(atoms, edges, ez) := b in
  nodes <- map_res parse_atom atoms ;;
  es <- map_res (edge_order nodes) edges ;;
  Ok {| g_nodes := nodes; g_edges := es; g_ez := ez |}.
Definition smiles_parse (smiles : pystr) : res sgraph :=
  b <- base_smiles_parser smiles ;; interpret b.
