(** TemplateFinal: the FINAL template fragment_iter (all_atom=True) returns, as far as the attributes
    Compose's [is_template] reads go.  After the stage of Template.v the code does: pysmiles
    fill_valence (an organic-subset atom, which has no hcount yet, gets hcount = missing valence:
    first valence >= the sum of its bond orders, minus that sum, truncated; 0 if there is none),
    add_explicit_hydrogens, then read_fragment_smiles sets fragname / fragid / weight / bonding /
    annotations / atomname and the slash marks (`ez_isomer_class`), and removes the explicit
    hydrogens again — every hydrogen pysmiles added is simple and is removed, every hydrogen WRITTEN
    in the text is a bracket atom, has an annotation entry and is kept — so the atoms of the text keep
    their indices, the bonds between them are untouched, and hcount is back to the filled value.
    A fragment that is one atom without hydrogens returns early (hcount 0; a lone [H] gets
    `single_h_frag`).  Bond orders are summed in half units (1.5 -> 3).  Modelled for texts without
    chirality marks (rs_isomer is rewritten by pysmiles' stereo post-processing: not modelled) and
    for annotation keys that do not collide with the structural attributes.  No proofs here. *)
From Coq Require Import String.
From Coq Require Import List Ascii ZArith Bool.
From CGV Require Import Base.PyBase Base.PyVal Gen.SmilesGen Dialect.DialectImpl Frag.NDict Frag.StripImpl
     Frag.SmilesParse Frag.Template.
Import ListNotations.
Local Open Scope Z_scope.

(** twice the bond order *)
Definition order2 (o : pyval) : res Z :=
  match o with
  | VInt k => Ok (2 * k)
  | VFlt r => if str_eqb r (S "1.5") then Ok 3 else Err EType
  | _ => Err EType
  end.
Fixpoint bonds2 (i : nat) (edges : list (nat * nat * pyval)) : res Z :=
  match edges with
  | [] => Ok 0
  | (u, v, o) :: r =>
      rest <- bonds2 i r ;;
      if Nat.eqb u i || Nat.eqb v i then (x <- order2 o ;; Ok (x + rest)) else Ok rest
  end.
(** bonds_missing, then max(…, 0): [val] = the valences, [b2] = twice the bond-order sum *)
Fixpoint missing_h (val : list Z) (b2 : Z) : Z :=
  match val with
  | [] => 0
  | v :: r => if b2 <=? 2 * v then (2 * v - b2) / 2 else missing_h r b2
  end.
Definition valence_of (element : pystr) : res (list Z) :=
  match find (fun kv => str_eqb element (fst kv)) smiles_valence with Some kv => Ok (snd kv) | None => Err ELookup end.
(** hcount after fill_valence (and after the hydrogens were added and removed again) *)
Definition final_hcount (edges : list (nat * nat * pyval)) (i : nat) (a : attrs) : res Z :=
  match aget (S "hcount") a with
  | Some (VInt h) => Ok h
  | Some _ => Err EType
  | None =>
      match aget (S "element") a with
      | Some (VStr e) =>
          if str_eqb e (S "H") then Ok 0
          else val <- valence_of e ;; b2 <- bonds2 i edges ;; Ok (missing_h val b2)
      | _ => Ok 0                                   (* valence({}) = [] *)
      end
  end.
Definition element_of (a : attrs) : res pystr :=
  match aget (S "element") a with Some (VStr e) => Ok e | _ => Err EKey end.     (* node[1]['element'] *)

Definition final_node (name : pystr) (edges : list (nat * nat * pyval)) (single : bool)
           (d : ndict (list pystr)) (ez : ndict ascii) (ann : ndict attrs) (i : nat) (base : attrs) : res attrs :=
  h <- final_hcount edges i base ;;
  e <- element_of base ;;
  let a1 := template_node name base (nd_get i d) (nd_get i ann) in
  let a2 := aset (S "atomname") (VStr (e ++ str_of_nat i)) a1 in
  let a3 := match nd_get i ez with Some c => aset (S "ez_isomer_class") (VStr [c]) a2 | None => a2 end in
  if single && Z.eqb h 0 && str_eqb e (S "H")
  then Ok (aset (S "single_h_frag") (VBool true) (adel (S "hcount") a3))
  else Ok (aset (S "hcount") (VInt h) a3).
Fixpoint final_nodes (name : pystr) (edges : list (nat * nat * pyval)) (single : bool)
         (d : ndict (list pystr)) (ez : ndict ascii) (ann : ndict attrs) (i : nat) (nodes : list attrs) : res (list attrs) :=
  match nodes with
  | [] => Ok []
  | a :: r => x <- final_node name edges single d ez ann i a ;;
              xs <- final_nodes name edges single d ez ann (Datatypes.S i) r ;; Ok (x :: xs)
  end.
Definition final_assemble (name : pystr) (G : sgraph) (d : ndict (list pystr)) (ez : ndict ascii) (ann : ndict attrs) : res tmpl :=
  let single := match g_nodes G with [_] => true | _ => false end in
  ns <- final_nodes name (g_edges G) single d ez ann 0%nat (g_nodes G) ;;
  Ok {| t_nodes := ns; t_edges := g_edges G |}.
Definition fragment_template_final (fo : float_oracle) (name : pystr) (frag_smile : pystr) : res tmpl :=
  '(clean, d, ez, a) <- strip_bonding_descriptors fo frag_smile ;;
  let smiles_str := if str_eqb clean (S "H") then S "[H]" else clean in
  G <- smiles_parse smiles_str ;;
  final_assemble name G d ez a.
