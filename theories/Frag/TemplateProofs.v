(** TemplateProofs: [template_of_render] — for a fragment text rendered from tokens with descriptors
    written after their atoms, the template that fragment_iter builds (strip -> pysmiles -> set
    bonding / attributes; models of Template.v) is the token-level one: node i is the i-th atom
    token (parse_atom of its text) with fragname / fragid / weight, its descriptors in textual order
    with their order digit as the `bonding` list, its annotation; the edges are the bonds of the
    token list with their orders ([graph_of]).  Composition of [strip_correct] and [render_parse]. *)
From Coq Require Import String.
From Coq Require Import List Ascii ZArith Bool Lia.
From CGV Require Import Base.PyBase Base.PyVal Dialect.DialectImpl Frag.NDict Frag.StripImpl Frag.FragText Frag.FragProofs
     Frag.SmilesParse Frag.SmilesSpec Frag.SmilesProofs Frag.SmilesIndex Frag.Template.
Import ListNotations.

(** the specification: descriptors / annotations of [strip_spec] on the graph of the tokens *)
Definition template_spec (fo : float_oracle) (name : pystr) (toks : list tok) (dc : decor) : res tmpl :=
  '(_, d, _, a) <- strip_spec fo toks dc ;;
  G <- graph_of false toks ;;
  Ok (assemble name G d a).

Lemma spec_clean fo : forall items sp sp', spec_run fo sp items = Ok sp' ->
  s_clean sp' = s_clean sp ++ flat_map (fun i => match i with ITok t => clean_tok t | _ => [] end) items.
Proof.
  induction items as [|i r IH]; intros sp sp' H; cbn [spec_run] in H.
  - inversion H. cbn [flat_map]. now rewrite app_nil_r.
  - destruct (spec_item fo sp i) as [sp1|e] eqn:E; cbn [bind] in H; [|discriminate H].
    rewrite (IH sp1 sp' H). cbn [flat_map]. rewrite app_assoc. f_equal.
    destruct i as [d|t|d]; cbn [spec_item] in E.
    + inversion E; subst. cbn [spec_desc s_clean]. now rewrite app_nil_r.
    + destruct t; cbn [spec_tok] in E; try (inversion E; subst; reflexivity).
      destruct (fragment_node_parser fo match annot with Some x => x | None => [] end); cbn [bind] in E;
        inversion E; subst; reflexivity.
    + inversion E; subst. cbn [spec_desc s_clean]. now rewrite app_nil_r.
Qed.
Lemma clean_of_decorate toks dc :
  flat_map (fun i => match i with ITok t => clean_tok t | _ => [] end) (decorate toks dc) = render_smiles false toks.
Proof.
  unfold decorate. rewrite flat_map_app.
  assert (L : flat_map (fun i => match i with ITok t => clean_tok t | _ => [] end) (map ILead (d_lead dc)) = []).
  { induction (d_lead dc); cbn; auto. }
  rewrite L. cbn [app]. generalize (d_after dc). induction toks as [|t r IH]; intros after; [reflexivity|].
  cbn [interleave flat_map render_smiles]. rewrite flat_map_app.
  assert (M : flat_map (fun i => match i with ITok t => clean_tok t | _ => [] end) (map IDesc (hd [] after)) = []).
  { induction (hd [] after); cbn; auto. }
  rewrite M. cbn [app]. rewrite IH. destruct t; reflexivity.
Qed.
Lemma strip_spec_clean fo toks dc clean d e a :
  strip_spec fo toks dc = Ok (clean, d, e, a) -> clean = render_smiles false toks.
Proof.
  unfold strip_spec, spec_items. destruct (spec_run fo sinit (decorate toks dc)) as [sp|x] eqn:E; cbn; [|discriminate].
  intros H. inversion H; subst. rewrite (spec_clean fo _ _ _ E). cbn. apply clean_of_decorate.
Qed.
(** an atomistic token list never renders to the lone text "H" *)
Lemma clean_not_H toks : wf_smiles toks = true -> str_eqb (render_smiles false toks) (S "H") = false.
Proof.
  unfold wf_smiles. destruct toks as [|t r]; [reflexivity|]. cbn [wf_toks]. intros W.
  apply andb_prop in W. destruct W as [Wt W].
  destruct t as [e|body annot|b| | |b m|f|n]; try discriminate W; cbn in Wt.
  - unfold str_in, organic_atoms in Wt. cbn [existsb] in Wt.
    repeat (apply orb_prop in Wt; destruct Wt as [Wt|Wt]); try discriminate Wt;
      apply str_eqb_eq in Wt; subst e; reflexivity.
  - reflexivity.
Qed.

Theorem template_of_render fo name toks dc :
  wf toks dc = true -> excluded toks dc = false -> wf_smiles toks = true ->
  fragment_template fo name (render (decorate toks dc)) = template_spec fo name toks dc.
Proof.
  intros W X WS. unfold fragment_template, template_spec. rewrite (strip_correct fo toks dc W X).
  destruct (strip_spec fo toks dc) as [[[[clean d] e] a]|err] eqn:ES; cbn [bind]; [|reflexivity].
  rewrite (strip_spec_clean fo toks dc clean d e a ES), (clean_not_H toks WS), (render_parse false toks WS).
  reflexivity.
Qed.

(** what the specification says, node by node *)
Lemma nth_error_combine_seq {A} (l : list A) : forall start i x, nth_error l i = Some x ->
  nth_error (combine (seq start (length l)) l) i = Some (start + i, x).
Proof.
  induction l as [|y l IH]; intros start i x H; [destruct i; discriminate H|].
  destruct i as [|i]; cbn in *.
  - inversion H. now rewrite Nat.add_0_r.
  - rewrite (IH (Datatypes.S start) i x H). f_equal. f_equal. lia.
Qed.
Theorem template_spec_nodes fo name toks dc T clean d e a G :
  template_spec fo name toks dc = Ok T -> strip_spec fo toks dc = Ok (clean, d, e, a) -> graph_of false toks = Ok G ->
  length (t_nodes T) = length (g_nodes G) /\ t_edges T = g_edges G /\
  forall i base, nth_error (g_nodes G) i = Some base ->
    nth_error (t_nodes T) i = Some (template_node name base (nd_get i d) (nd_get i a)).
Proof.
  unfold template_spec. intros HT HS HG. rewrite HS, HG in HT. cbn in HT. inversion HT; subst T; clear HT. cbn.
  split; [rewrite map_length, combine_length, seq_length; lia|]. split; [reflexivity|].
  intros i base N. rewrite nth_error_map, (nth_error_combine_seq _ 0 i base N). reflexivity.
Qed.

(** the attributes Compose's [tattrs_ok] reads, on a node whose annotation does not set them *)
Lemma aget_aupdate_none k b : forall a, aget k b = None -> aget k (aupdate a b) = aget k a.
Proof.
  unfold aupdate. induction b as [|[k' v] r IH]; intros a H; [reflexivity|]. cbn in H. cbn [fold_left fst snd].
  destruct (str_eqb_spec k k') as [->|N]; [discriminate H|]. rewrite (IH _ H). apply aget_aset_other. exact N.
Qed.
Definition ann_lacks (k : pystr) (ann : option attrs) : Prop := match ann with Some an => aget k an = None | None => True end.
Lemma template_node_fragname name base ds ann : ann_lacks (S "fragname") ann ->
  aget (S "fragname") (template_node name base ds ann) = Some (VStr name).
Proof.
  intros L. unfold template_node. destruct ann as [an|]; [rewrite (aget_aupdate_none _ _ _ L)|];
    destruct ds; repeat (rewrite aget_aset_other by discriminate); apply aget_aset_same.
Qed.
Lemma template_node_fragid name base ds ann : ann_lacks (S "fragid") ann ->
  aget (S "fragid") (template_node name base ds ann) = Some (VInt 0).
Proof.
  intros L. unfold template_node. destruct ann as [an|]; [rewrite (aget_aupdate_none _ _ _ L)|];
    destruct ds; repeat (rewrite aget_aset_other by discriminate); apply aget_aset_same.
Qed.
Lemma template_node_bonding name base ds ann : ann_lacks (S "bonding") ann -> aget (S "bonding") base = None ->
  aget (S "bonding") (template_node name base ds ann) = option_map (fun l => VList (map VStr l)) ds.
Proof.
  intros L B. unfold template_node. destruct ann as [an|]; [rewrite (aget_aupdate_none _ _ _ L)|];
    destruct ds; cbn [option_map]; try apply aget_aset_same; repeat (rewrite aget_aset_other by discriminate); exact B.
Qed.
Lemma template_node_base name base ds ann k : ann_lacks k ann ->
  k <> S "fragname" -> k <> S "fragid" -> k <> S "weight" -> k <> S "bonding" ->
  aget k (template_node name base ds ann) = aget k base.
Proof.
  intros L N1 N2 N3 N4. unfold template_node. destruct ann as [an|]; [rewrite (aget_aupdate_none _ _ _ L)|];
    destruct ds; repeat (rewrite aget_aset_other by assumption); reflexivity.
Qed.

(** non-vacuity: [>]=C(/Cl)=1-[$a]C[NH3+]#[<]C1=[!2][$] as fragment "X" *)
From CGV Require Import Frag.StripFacts.
Lemma template_example :
  wf nv_toks nv_dc = true /\ excluded nv_toks nv_dc = false /\ wf_smiles nv_toks = true /\
  exists T, fragment_template fo0 (S "X") (render (decorate nv_toks nv_dc)) = Ok T /\
    length (t_nodes T) = 5 /\
    map (aget (S "bonding")) (t_nodes T) =
      [Some (VList [VStr (S ">2"); VStr (S "$a1")]); None; None; Some (VList [VStr (S "<3")]);
       Some (VList [VStr (S "!22"); VStr (S "$1")])] /\
    map (aget (S "element")) (t_nodes T) = [Some (VStr (S "C")); Some (VStr (S "Cl")); Some (VStr (S "C")); Some (VStr (S "N")); Some (VStr (S "C"))] /\
    map (aget (S "fragname")) (t_nodes T) = repeat (Some (VStr (S "X"))) 5 /\
    t_edges T = [(0, 1, VInt 1); (0, 2, VInt 1); (2, 3, VInt 1); (3, 4, VInt 1); (4, 0, VInt 2)].
Proof.
  split; [vm_compute; reflexivity|]. split; [vm_compute; reflexivity|]. split; [vm_compute; reflexivity|].
  eexists. split; [vm_compute; reflexivity|]. repeat split; reflexivity.
Qed.
