(** TemplateChiralProofs: the final template WITH chirality marks.  [template_final_rs_of_render]: the
    machines return the token-level template with the neighbour tuples; without a chirality mark the
    stereo pass changes nothing, so [template_is_template] carries over to the extended model; with a
    mark: the node gets `rs_isomer` = the tuple of [chiral_tuple], which has four entries, each the atom
    itself (only when it has hydrogens) or an atom bonded to it, and contains every bonded atom; all
    other attributes and the bonds are the ones of TemplateFinal.v. *)
From Coq Require Import String.
From Coq Require Import List Ascii ZArith Bool Lia Permutation.
From CGV Require Import Base.PyBase Base.PyVal Base.NxGraph Dialect.DialectImpl Frag.NDict Frag.StripImpl Frag.FragText
     Frag.FragProofs Frag.SmilesParse Frag.SmilesSpec Frag.SmilesProofs Frag.Template Frag.TemplateProofs
     Frag.TemplateFinal Frag.TemplateGraph Frag.TemplateChiral Frag.TemplateCompose.
From CGV Require Import Compose.CutModel.
Import ListNotations.
Local Open Scope nat_scope.

Definition template_final_spec_rs (fo : float_oracle) (name : pystr) (toks : list tok) (dc : decor) : res tmpl :=
  '(_, d, ez, a) <- strip_spec fo toks dc ;;
  G <- graph_of false toks ;;
  final_assemble_rs name G d ez a.
Theorem template_final_rs_of_render fo name toks dc :
  wf toks dc = true -> excluded toks dc = false -> wf_smiles toks = true ->
  fragment_template_final_rs fo name (render (decorate toks dc)) = template_final_spec_rs fo name toks dc.
Proof.
  intros W X WS. unfold fragment_template_final_rs, template_final_spec_rs. rewrite (strip_correct fo toks dc W X).
  destruct (strip_spec fo toks dc) as [[[[clean d] e] a]|err] eqn:ES; cbn [bind]; [|reflexivity].
  rewrite (strip_spec_clean fo toks dc clean d e a ES), (clean_not_H toks WS), (render_parse false toks WS).
  reflexivity.
Qed.

(** no chirality mark: nothing changes *)
Lemma rs_nodes_plain n E ann : forall bases i nodes,
  (forall base, In base bases -> aget (S "rs_isomer") base = None) -> rs_nodes n E ann i bases nodes = Ok nodes.
Proof.
  induction bases as [|b br IH]; intros i nodes H; [reflexivity|]. destruct nodes as [|a ar]; [reflexivity|].
  cbn [rs_nodes]. unfold rs_node. rewrite (H b (or_introl eq_refl)). cbn [bind].
  rewrite (IH (Datatypes.S i) ar (fun base IN => H base (or_intror IN))). reflexivity.
Qed.
Lemma final_assemble_rs_plain name G d ez ann :
  (forall base, In base (g_nodes G) -> aget (S "rs_isomer") base = None) ->
  final_assemble_rs name G d ez ann = final_assemble name G d ez ann.
Proof.
  intros H. unfold final_assemble_rs, rs_pass. destruct (final_assemble name G d ez ann) as [T|e]; cbn [bind]; [|reflexivity].
  rewrite (rs_nodes_plain _ _ _ _ _ _ H). cbn [bind]. destruct T; reflexivity.
Qed.
Theorem template_is_template_rs fo C name xs toks dc clean d ez ann G T0 :
  wf toks dc = true -> excluded toks dc = false -> wf_smiles toks = true ->
  strip_spec fo toks dc = Ok (clean, d, ez, ann) -> graph_of false toks = Ok G -> final_assemble name G d ez ann = Ok T0 ->
  plain G ann -> cut_agrees C xs T0 d ->
  fragment_template_final_rs fo name (render (decorate toks dc)) = Ok T0 /\ is_template C name xs (tmpl_graph T0).
Proof.
  intros W X WS HS HG HA PL CA.
  destruct (template_is_template fo C name xs toks dc clean d ez ann G T0 W X WS HS HG HA PL CA) as [_ IT]. split; [|exact IT].
  rewrite (template_final_rs_of_render fo name toks dc W X WS). unfold template_final_spec_rs. rewrite HS. cbn [bind]. rewrite HG. cbn [bind].
  rewrite final_assemble_rs_plain; [exact HA|]. intros base IN. destruct PL as [PB _]. apply (PB base IN).
Qed.

(** the neighbour tuple *)
Lemma ring_scan_in E : forall k u v, In (u, v) (ring_scan k E) -> exists o, In (u, v, o) E.
Proof.
  induction E as [|[[u0 v0] o0] r IH]; intros k u v IN; cbn [ring_scan] in IN; [contradiction|].
  destruct (Nat.eqb v0 k).
  - destruct (IH _ _ _ IN) as [o Ho]. exists o. right. exact Ho.
  - destruct IN as [Q|IN]; [inversion Q; subst; exists o0; left; reflexivity|].
    destruct (IH _ _ _ IN) as [o Ho]. exists o. right. exact Ho.
Qed.
Lemma adjacent_in E i j : adjacent E i j = true <-> exists o, In (i, j, o) E \/ In (j, i, o) E.
Proof.
  unfold adjacent. rewrite existsb_exists. split.
  - intros [[[u v] o] [IN Q]]. exists o. apply orb_prop in Q. destruct Q as [Q|Q]; apply andb_prop in Q; destruct Q as [Q1 Q2];
      apply Nat.eqb_eq in Q1; apply Nat.eqb_eq in Q2; subst; auto.
  - intros [o [IN|IN]]; eexists; (split; [exact IN|]); cbn; rewrite !Nat.eqb_refl; cbn; auto using orb_true_r.
Qed.
Lemma ring_partners_adjacent E i j k : In j (ring_partners i (ring_scan k E)) -> adjacent E i j = true.
Proof.
  unfold ring_partners. intros IN. apply in_flat_map in IN. destruct IN as [[a b] [IN Q]]. cbn [fst snd] in Q.
  destruct (ring_scan_in E k a b IN) as [o Ho]. apply adjacent_in. exists o.
  apply in_app_or in Q. destruct Q as [Q|Q].
  - destruct (Nat.eqb_spec a i); [|contradiction]. destruct Q as [<-|[]]. subst. left. exact Ho.
  - destruct (Nat.eqb_spec b i); [|contradiction]. destruct Q as [<-|[]]. subst. right. exact Ho.
Qed.
Lemma in_insert1 {A} (x y : A) l : In y (insert1 x l) <-> y = x \/ In y l.
Proof. destruct l as [|a r]; cbn; intuition. Qed.
Lemma chiral_neighbours_spec n E i h j :
  In j (chiral_neighbours n E i h) <->
  (j = i /\ h <> 0%Z) \/ In j (ring_partners i (ring_scan 1 E)) \/ (adjacent E i j = true /\ j < n).
Proof.
  unfold chiral_neighbours. set (rings := ring_partners i (ring_scan 1 E)).
  assert (NB : In j (rings ++ filter (fun j0 => negb (existsb (Nat.eqb j0) rings)) (TemplateChiral.bonded n E i)) <->
               In j rings \/ (adjacent E i j = true /\ j < n)).
  { rewrite in_app_iff, filter_In. unfold TemplateChiral.bonded. rewrite filter_In, in_seq. split.
    - intros [H|[[[_ L] A] _]]; [left; exact H|right; split; [exact A|lia]].
    - intros [H|[A L]]; [left; exact H|].
      destruct (existsb (Nat.eqb j) rings) eqn:EX.
      + left. apply existsb_exists in EX. destruct EX as [x [IN Q]]. apply Nat.eqb_eq in Q. subst. exact IN.
      + right. split; [split; [lia|exact A]|reflexivity]. }
  destruct (Z.eqb_spec h 0) as [->|NZ].
  - rewrite NB. split; [intros H; right; exact H|intros [[_ X]|H]; [exfalso; apply X; reflexivity|exact H]].
  - rewrite in_insert1, NB. split; [intros [->|H]; [left; split; [reflexivity|exact NZ]|right; exact H]|].
    intros [[-> _]|H]; [left; reflexivity|right; exact H].
Qed.
Theorem chiral_tuple_spec n E i dir h l : chiral_tuple n E i dir h = Ok l ->
  length l = 4 /\ Permutation l (chiral_neighbours n E i h) /\
  (forall j, In j l -> (j = i /\ h <> 0%Z) \/ adjacent E i j = true) /\
  (forall j, adjacent E i j = true -> j < n -> In j l).
Proof.
  unfold chiral_tuple. intros H.
  destruct (chiral_neighbours n E i h) as [|a [|b [|c [|d [|x r]]]]] eqn:EN; try discriminate H.
  assert (P : Permutation l [a; b; c; d]).
  { destruct (str_eqb dir (S "@@")); inversion H; subst; [|reflexivity]. do 2 apply perm_skip. apply perm_swap. }
  assert (L : length l = 4) by (rewrite (Permutation_length P); reflexivity).
  split; [exact L|]. split; [exact P|]. split.
  - intros j IN. apply (Permutation_in _ P) in IN. rewrite <- EN in IN. apply chiral_neighbours_spec in IN.
    destruct IN as [X|[X|[X _]]]; [left; exact X|right; apply (ring_partners_adjacent E i j 1 X)|right; exact X].
  - intros j A Lj. apply (Permutation_in _ (Permutation_sym P)). rewrite <- EN. apply chiral_neighbours_spec. right. right. auto.
Qed.

(** node i of the extended template *)
Lemma rs_nodes_nth n E ann : forall bases nodes k ns, rs_nodes n E ann k bases nodes = Ok ns -> length bases = length nodes ->
  length ns = length nodes /\
  forall i base a, nth_error bases i = Some base -> nth_error nodes i = Some a ->
    exists a', nth_error ns i = Some a' /\ rs_node n E ann (k + i) base a = Ok a'.
Proof.
  induction bases as [|b br IH]; intros nodes k ns H L.
  - destruct nodes; [|discriminate L]. cbn in H. inversion H; subst. split; [reflexivity|]. intros i base a N. destruct i; discriminate N.
  - destruct nodes as [|a ar]; [discriminate L|]. cbn [rs_nodes] in H.
    destruct (rs_node n E ann k b a) as [x|e] eqn:Ex; cbn [bind] in H; [|discriminate H].
    destruct (rs_nodes n E ann (Datatypes.S k) br ar) as [xs|e] eqn:Er; cbn [bind] in H; [|discriminate H].
    inversion H; subst ns. destruct (IH ar (Datatypes.S k) xs Er ltac:(cbn in L; lia)) as [L1 P]. split; [cbn; lia|].
    intros [|i] base a0 N1 N2; cbn in N1, N2.
    + inversion N1; inversion N2; subst. exists x. split; [reflexivity|]. rewrite Nat.add_0_r. exact Ex.
    + destruct (P i base a0 N1 N2) as [a' [Q1 Q2]]. exists a'. split; [exact Q1|]. rewrite <- Q2. f_equal. lia.
Qed.
Theorem template_rs_node name G d ez ann T0 T i base a0 :
  final_assemble name G d ez ann = Ok T0 -> final_assemble_rs name G d ez ann = Ok T ->
  nth_error (g_nodes G) i = Some base -> nth_error (t_nodes T0) i = Some a0 ->
  t_edges T = t_edges T0 /\ length (t_nodes T) = length (t_nodes T0) /\
  exists a, nth_error (t_nodes T) i = Some a /\
    (forall k, k <> S "rs_isomer" -> aget k a = aget k a0) /\
    match aget (S "rs_isomer") base with
    | None => a = a0
    | Some (VStr dir) =>
        exists h l, final_hcount (g_edges G) i base = Ok h /\ chiral_tuple (length (g_nodes G)) (g_edges G) i dir h = Ok l /\
          ((match nd_get i ann with Some an => aget (S "rs_isomer") an | None => None end) = None ->
           aget (S "rs_isomer") a = Some (tuple_val l))
    | Some _ => False
    end.
Proof.
  intros HA HR Nb Na. unfold final_assemble_rs in HR. rewrite HA in HR. cbn [bind] in HR. unfold rs_pass in HR.
  destruct (rs_nodes (length (g_nodes G)) (g_edges G) ann 0 (g_nodes G) (t_nodes T0)) as [ns|e] eqn:ER; cbn [bind] in HR; [|discriminate HR].
  inversion HR; subst T; clear HR. cbn [t_nodes t_edges].
  assert (LL : length (g_nodes G) = length (t_nodes T0)).
  { unfold final_assemble in HA.
    destruct (final_nodes name (g_edges G) match g_nodes G with [_] => true | _ => false end d ez ann 0 (g_nodes G)) as [ns0|x] eqn:EN;
      cbn [bind] in HA; [|discriminate HA]. inversion HA; subst T0. cbn. destruct (final_nodes_nth _ _ _ _ _ _ _ _ _ EN) as [LN _]. lia. }
  destruct (rs_nodes_nth _ _ _ _ _ _ _ ER LL) as [L1 P]. split; [reflexivity|]. split; [exact L1|].
  destruct (P i base a0 Nb Na) as [a [N1 RN]]. cbn [Nat.add] in RN. exists a. split; [exact N1|].
  unfold rs_node in RN. destruct (aget (S "rs_isomer") base) as [[| | | |dir| | |]|] eqn:EB; try discriminate RN.
  - destruct (final_hcount (g_edges G) i base) as [h|x] eqn:EH; cbn [bind] in RN; [|discriminate RN].
    destruct (chiral_tuple (length (g_nodes G)) (g_edges G) i dir h) as [l|x] eqn:EC; cbn [bind] in RN; [|discriminate RN].
    destruct (match nd_get i ann with Some an => aget (S "rs_isomer") an | None => None end) eqn:EA; inversion RN; subst a.
    + split; [reflexivity|]. exists h, l. split; [reflexivity|]. split; [exact EC|]. discriminate.
    + split; [intros k NK; apply aget_aset_other; exact NK|]. exists h, l. split; [reflexivity|]. split; [exact EC|].
      intros _. apply aget_aset_same.
  - inversion RN; subst a. split; reflexivity.
Qed.

(** non-vacuity: C1C[C@@]12CC2Cl — the ring-bond partners 0 and 4 first, then 1 and 3 exchanged by @@ *)
Lemma chiral_example :
  (exists T, fragment_template_final_rs (fo_of_table []) (S "A") (S "C1C[C@@]12CC2Cl[$]") = Ok T /\
     map (aget (S "rs_isomer")) (t_nodes T) = [None; None; Some (tuple_val [0; 4; 3; 1]); None; None; None] /\
     map (aget (S "bonding")) (t_nodes T) = [None; None; None; None; None; Some (VList [VStr (S "$1")])]) /\
  (exists T, fragment_template_final_rs (fo_of_table []) (S "A") (S "F[C@H](Cl)Br") = Ok T /\
     map (aget (S "rs_isomer")) (t_nodes T) = [None; Some (tuple_val [0; 1; 2; 3]); None; None]) /\
  fragment_template_final_rs (fo_of_table []) (S "A") (S "[C@H2](F)Br") = Err EValue /\
  chiral_tuple 6 [(0, 1, VInt 1); (1, 2, VInt 1); (2, 0, VInt 1); (2, 3, VInt 1); (3, 4, VInt 1); (4, 2, VInt 1); (4, 5, VInt 1)] 2 (S "@@") 0
    = Ok [0; 4; 3; 1].
Proof.
  split; [eexists; split; [vm_compute; reflexivity|split; vm_compute; reflexivity]|].
  split; [eexists; split; [vm_compute; reflexivity|vm_compute; reflexivity]|].
  split; vm_compute; reflexivity.
Qed.
