(** SmilesRewrite: writings of one fragment related by a sequence of elementary rewritings (text
    level of C01, start atom of branched fragments).  Elementary steps: the re-rooting step of
    SmilesReroot, the exchange of two adjacent branches (SmilesPerm, SmilesPermR), and writing the
    tail of the text as a last branch or back.  Every sequence of steps relates the graphs by the
    composed permutation ([rws_sound]).  Also: every [sigma_ok] permutation has an inverse. *)
From Coq Require Import String.
From Coq Require Import List Ascii ZArith Bool Lia Permutation FinFun.
From CGV Require Import Base.PyBase Base.PyVal Gen.SmilesGen Frag.NDict Frag.FragText Frag.SmilesParse Frag.SmilesSpec
     Frag.SmilesProofs Frag.SmilesPerm Frag.SmilesReverse Frag.SmilesPermR Frag.SmilesPermX Frag.SmilesPermG Frag.SmilesReroot.
Import ListNotations.

(** * a permutation below n has an inverse *)
Definition inv_of (s : nat -> nat) (n j : nat) : nat :=
  match find (fun i => Nat.eqb (s i) j) (seq 0 n) with Some i => i | None => 0 end.
Lemma sigma_ok_inv s n : sigma_ok s n -> sigma_inv s (inv_of s n) n.
Proof.
  intros [I [B F]] j J.
  assert (IN : In j (map s (seq 0 n))).
  { apply (NoDup_length_incl (l := map s (seq 0 n)) (l' := seq 0 n)).
    - apply Injective_map_NoDup; [exact I|apply seq_NoDup].
    - rewrite map_length. lia.
    - intros y Y. apply in_map_iff in Y. destruct Y as [i [<- Hi]]. apply in_seq in Hi. apply in_seq. pose proof (B i). lia.
    - apply in_seq. lia. }
  apply in_map_iff in IN. destruct IN as [i [Si Hi]].
  unfold inv_of. destruct (find (fun i0 => Nat.eqb (s i0) j) (seq 0 n)) as [k|] eqn:Ef.
  - apply find_some in Ef. destruct Ef as [K1 K2]. apply in_seq in K1. apply Nat.eqb_eq in K2. split; [lia|exact K2].
  - exfalso. pose proof (find_none _ _ Ef i Hi) as X. cbn beta in X. rewrite Si, Nat.eqb_refl in X. discriminate X.
Qed.

(** from the base observations to the graphs, for any permutation *)
Lemma base_perm_uperm s n b1 b2 : base_perm s n b1 b2 -> base_uperm s n b1 b2.
Proof.
  destruct b1 as [[at1 e1] z1], b2 as [[at2 e2] z2]. intros [L1 [L2 [A [P Z]]]]. repeat split; auto.
  apply Permutation_map. exact P.
Qed.
Definition base_rel (s : nat -> nat) (r1 r2 : res base_obs) : Prop :=
  match r1, r2 with
  | Ok b1, Ok b2 => exists n, base_uperm s n b1 b2 /\ sigma_ok s n
  | Err e, Err e' => e = e'
  | _, _ => False
  end.
Lemma base_rel_graphs s r1 r2 : base_rel s r1 r2 ->
  graphs_rel s (b <- r1 ;; interpret b) (b <- r2 ;; interpret b).
Proof.
  unfold base_rel, graphs_rel. destruct r1 as [b1|e1], r2 as [b2|e2]; cbn [bind]; try contradiction; [|auto].
  intros [n [BP SO]]. pose proof (interpret_uperm s _ n b1 b2 BP SO (sigma_ok_inv s n SO)) as IP.
  destruct (interpret b1), (interpret b2); try contradiction; [exists n; split; assumption|exact IP].
Qed.

(** * a ring bond crossing an exchanged branch: graph level *)
Theorem xswap_branches x pa pb y g c :
  grun false ginit x = Ok g -> q_cur g = Some c -> q_pend g = None ->
  is_rblock pa = true -> is_rblock pb = true -> rings_local pb = true -> fresh g pa -> fresh g pb -> avoids pa pb ->
  let s := swap_sigma (q_n g) (count_atoms pa) (count_atoms pb) in
  match graph_of false (x ++ pa ++ pb ++ y), graph_of false (x ++ pb ++ pa ++ y) with
  | Ok G, Ok H => exists n, graph_perm s n G H /\ sigma_ok s n
  | Err e, Err e' => e = e'
  | _, _ => False
  end.
Proof.
  intros RX C P BA BB RB FA FB AV s.
  pose proof (xswap_branches_base x pa pb y g c RX C P BA BB RB FA FB AV) as H. fold s in H. unfold graph_of.
  destruct (graph_base false (x ++ pa ++ pb ++ y)) as [b1|e1], (graph_base false (x ++ pb ++ pa ++ y)) as [b2|e2];
    cbn [bind]; try contradiction; [|exact H].
  destruct H as [n [BP SO]]. pose proof (interpret_perm s _ n b1 b2 BP SO (sigma_ok_inv s n SO)) as IP.
  destruct (interpret b1), (interpret b2); try contradiction; [exists n; split; assumption|exact IP].
Qed.
Theorem xswap_branches_text x pa pb y g c :
  wf_smiles (x ++ pa ++ pb ++ y) = true -> wf_smiles (x ++ pb ++ pa ++ y) = true ->
  grun false ginit x = Ok g -> q_cur g = Some c -> q_pend g = None ->
  is_rblock pa = true -> is_rblock pb = true -> rings_local pb = true -> fresh g pa -> fresh g pb -> avoids pa pb ->
  let s := swap_sigma (q_n g) (count_atoms pa) (count_atoms pb) in
  match smiles_parse (render_smiles false (x ++ pa ++ pb ++ y)), smiles_parse (render_smiles false (x ++ pb ++ pa ++ y)) with
  | Ok G, Ok H => exists n, graph_perm s n G H /\ sigma_ok s n
  | Err e, Err e' => e = e'
  | _, _ => False
  end.
Proof. intros W1 W2. rewrite (render_parse false _ W1), (render_parse false _ W2). apply xswap_branches. Qed.

(** non-vacuity: CC(C1CC)(C2CC2)N1 and CC(C2CC2)(C1CC)N1 — ring bond 1 from the first branch to the N after both *)
Definition xs_x := [TAtom (S "C"); TAtom (S "C")].
Definition xs_pa := [TOpen; TAtom (S "C"); TRing None (S "1"); TAtom (S "C"); TAtom (S "C"); TClose].
Definition xs_pb := [TOpen; TAtom (S "C"); TRing None (S "2"); TAtom (S "C"); TAtom (S "C"); TRing None (S "2"); TClose].
Definition xs_y := [TAtom (S "N"); TRing None (S "1")].
Lemma xswap_example :
  to_string (render_smiles false (xs_x ++ xs_pa ++ xs_pb ++ xs_y)) = "CC(C1CC)(C2CC2)N1"%string /\
  to_string (render_smiles false (xs_x ++ xs_pb ++ xs_pa ++ xs_y)) = "CC(C2CC2)(C1CC)N1"%string /\
  wf_smiles (xs_x ++ xs_pa ++ xs_pb ++ xs_y) = true /\ wf_smiles (xs_x ++ xs_pb ++ xs_pa ++ xs_y) = true /\
  is_rblock xs_pa = true /\ is_rblock xs_pb = true /\ rings_local xs_pa = false /\ rings_local xs_pb = true /\ avoids xs_pa xs_pb /\
  (exists g, grun false ginit xs_x = Ok g /\ q_cur g = Some 1 /\ q_pend g = None /\ q_open g = []) /\
  (exists G H, graph_of false (xs_x ++ xs_pa ++ xs_pb ++ xs_y) = Ok G /\ graph_of false (xs_x ++ xs_pb ++ xs_pa ++ xs_y) = Ok H /\
     length (g_nodes G) = 9 /\ length (g_edges G) = 10 /\ In (8, 2, VInt 1) (g_edges G) /\ In (8, 5, VInt 1) (g_edges H) /\ G <> H).
Proof.
  repeat (split; [vm_compute; reflexivity|]). split; [|split].
  - intros b m IN. cbn in IN. repeat (destruct IN as [IN|IN]; [inversion IN; subst; vm_compute; reflexivity|]). contradiction.
  - eexists. split; [vm_compute; reflexivity|]. repeat split; reflexivity.
  - eexists. eexists. split; [vm_compute; reflexivity|]. split; [vm_compute; reflexivity|].
    split; [reflexivity|]. split; [reflexivity|]. split; [cbn; tauto|]. split; [cbn; tauto|discriminate].
Qed.

(** * any ring bonds through two exchanged branches with disjoint ring numbers: graph level *)
Theorem gswap_branches x pa pb y g c :
  grun false ginit x = Ok g -> q_cur g = Some c -> q_pend g = None ->
  is_rblock pa = true -> is_rblock pb = true -> disj pa pb ->
  let s := swap_sigma (q_n g) (count_atoms pa) (count_atoms pb) in
  match graph_of false (x ++ pa ++ pb ++ y), graph_of false (x ++ pb ++ pa ++ y) with
  | Ok G, Ok H => exists n, graph_perm s n G H /\ sigma_ok s n
  | Err e, Err e' => e = e'
  | _, _ => False
  end.
Proof.
  intros RX C P BA BB DJ s.
  pose proof (gswap_branches_base x pa pb y g c RX C P BA BB DJ) as H. fold s in H. unfold graph_of.
  destruct (graph_base false (x ++ pa ++ pb ++ y)) as [b1|e1], (graph_base false (x ++ pb ++ pa ++ y)) as [b2|e2];
    cbn [bind]; try contradiction; [|exact H].
  destruct H as [n [BP SO]]. pose proof (interpret_perm s _ n b1 b2 BP SO (sigma_ok_inv s n SO)) as IP.
  destruct (interpret b1), (interpret b2); try contradiction; [exists n; split; assumption|exact IP].
Qed.
Theorem gswap_branches_text x pa pb y g c :
  wf_smiles (x ++ pa ++ pb ++ y) = true -> wf_smiles (x ++ pb ++ pa ++ y) = true ->
  grun false ginit x = Ok g -> q_cur g = Some c -> q_pend g = None ->
  is_rblock pa = true -> is_rblock pb = true -> disj pa pb ->
  let s := swap_sigma (q_n g) (count_atoms pa) (count_atoms pb) in
  match smiles_parse (render_smiles false (x ++ pa ++ pb ++ y)), smiles_parse (render_smiles false (x ++ pb ++ pa ++ y)) with
  | Ok G, Ok H => exists n, graph_perm s n G H /\ sigma_ok s n
  | Err e, Err e' => e = e'
  | _, _ => False
  end.
Proof. intros W1 W2. rewrite (render_parse false _ W1), (render_parse false _ W2). apply gswap_branches. Qed.
(** [disj] by computation *)
Definition disjb (pa pb : list tok) : bool := forallb (fun z => negb (inb z (nums pb))) (nums pa).
Lemma disjb_sound pa pb : disjb pa pb = true -> disj pa pb.
Proof.
  unfold disjb, disj. rewrite forallb_forall. intros H z Hz. unfold inb in Hz. apply existsb_exists in Hz.
  destruct Hz as [k [IN Q]]. apply Z.eqb_eq in Q. subst k. specialize (H z IN). apply negb_true_iff in H. exact H.
Qed.

(** non-vacuity: C1CCC(CC1)(C2CC)N2 and C1CCC(C2CC)(CC1)N2 — the first branch closes ring bond 1 opened before
    it, the second opens ring bond 2 closed after both *)
Definition gs_x := [TAtom (S "C"); TRing None (S "1"); TAtom (S "C"); TAtom (S "C"); TAtom (S "C")].
Definition gs_pa := [TOpen; TAtom (S "C"); TAtom (S "C"); TRing None (S "1"); TClose].
Definition gs_pb := [TOpen; TAtom (S "C"); TRing None (S "2"); TAtom (S "C"); TAtom (S "C"); TClose].
Definition gs_y := [TAtom (S "N"); TRing None (S "2")].
Lemma gswap_example :
  to_string (render_smiles false (gs_x ++ gs_pa ++ gs_pb ++ gs_y)) = "C1CCC(CC1)(C2CC)N2"%string /\
  to_string (render_smiles false (gs_x ++ gs_pb ++ gs_pa ++ gs_y)) = "C1CCC(C2CC)(CC1)N2"%string /\
  wf_smiles (gs_x ++ gs_pa ++ gs_pb ++ gs_y) = true /\ wf_smiles (gs_x ++ gs_pb ++ gs_pa ++ gs_y) = true /\
  is_rblock gs_pa = true /\ is_rblock gs_pb = true /\ rings_local gs_pa = false /\ rings_local gs_pb = false /\
  disjb gs_pa gs_pb = true /\
  (exists g, grun false ginit gs_x = Ok g /\ q_cur g = Some 3 /\ q_pend g = None /\ length (q_open g) = 1) /\
  (exists G H, graph_of false (gs_x ++ gs_pa ++ gs_pb ++ gs_y) = Ok G /\ graph_of false (gs_x ++ gs_pb ++ gs_pa ++ gs_y) = Ok H /\
     length (g_nodes G) = 10 /\ length (g_edges G) = 11 /\ In (5, 0, VInt 1) (g_edges G) /\ In (8, 0, VInt 1) (g_edges H) /\ G <> H).
Proof.
  repeat (split; [vm_compute; reflexivity|]). split.
  - eexists. split; [vm_compute; reflexivity|]. repeat split; reflexivity.
  - eexists. eexists. split; [vm_compute; reflexivity|]. split; [vm_compute; reflexivity|].
    split; [reflexivity|]. split; [reflexivity|]. split; [cbn; tauto|]. split; [cbn; tauto|discriminate].
Qed.

(** * the tail of the text written as a last branch *)
Definition with_stack (g : gst) (st : list nat) : gst :=
  {| q_atoms := q_atoms g; q_edges := q_edges g; q_cur := q_cur g; q_n := q_n g; q_pend := q_pend g;
     q_stack := st; q_open := q_open g; q_ez := q_ez g |}.
Fixpoint nonnegb (depth : nat) (toks : list tok) : bool :=
  match toks with
  | [] => true
  | TOpen :: r => nonnegb (Datatypes.S depth) r
  | TClose :: r => match depth with O => false | Datatypes.S d => nonnegb d r end
  | _ :: r => nonnegb depth r
  end.
Lemma gstep_with_stack g st t : t <> TOpen -> t <> TClose ->
  gstep false (with_stack g st) t = match gstep false g t with Ok g1 => Ok (with_stack g1 st) | Err e => Err e end.
Proof.
  intros NO NC. destruct t as [e|body annot|bd| | |bd m|fw|n]; try reflexivity; try (exfalso; auto; fail).
  cbn [gstep]. unfold add_ring. cbn [with_stack q_cur q_open q_edges]. destruct (q_cur g) as [a|]; [|reflexivity].
  destruct (ring_get (marker_val m) (q_open g)) as [[j o]|]; [|reflexivity].
  destruct (merge_bond (option_map bchar bd) o); cbn [bind]; [|reflexivity].
  destruct (has_edge a j (q_edges g)); [reflexivity|]. destruct (Nat.eqb a j); reflexivity.
Qed.
Lemma gstep_cur_some g t g1 a : q_cur g = Some a -> gstep false g t = Ok g1 -> exists a1, q_cur g1 = Some a1.
Proof.
  intros C H. destruct t as [e|body annot|bd| | |bd m|fw|n]; cbn [gstep] in H; try (injection H as <-; cbn; eauto; fail).
  - injection H as <-. cbn. destruct (q_stack g); eauto.
  - unfold add_ring in H. rewrite C in H. destruct (ring_get (marker_val m) (q_open g)) as [[j o]|].
    + destruct (merge_bond (option_map bchar bd) o); cbn [bind] in H; [|discriminate H].
      destruct (has_edge a j (q_edges g)); [discriminate H|]. destruct (Nat.eqb a j); [discriminate H|].
      injection H as <-. cbn. eauto.
    + injection H as <-. cbn. eauto.
Qed.

Lemma tok_eq_open_close t : {t = TOpen} + {t = TClose} + {t <> TOpen /\ t <> TClose}.
Proof. destruct t; try (right; split; discriminate); [left; left; reflexivity|left; right; reflexivity]. Qed.
Lemma paren_run c K : forall toks depth g st, nonnegb depth toks = true -> length st = depth ->
  q_stack g = st ++ K -> (exists a, q_cur g = Some a) ->
  match grun false g toks, grun false (with_stack g (st ++ c :: K)) toks with
  | Ok g1, Ok h1 => exists st1, h1 = with_stack g1 (st1 ++ c :: K)
  | Err e, Err e' => e = e'
  | _, _ => False
  end.
Proof.
  induction toks as [|t r IH]; intros depth g st NN L KS [a Ca]; cbn [grun]; [exists st; reflexivity|].
  destruct (tok_eq_open_close t) as [[->| ->]|[NO NC]].
  - (* "(" *)
    cbn [gstep bind with_stack q_cur q_stack]. rewrite Ca. cbn [nonnegb] in NN.
    pose proof (IH (Datatypes.S depth)
      {| q_atoms := q_atoms g; q_edges := q_edges g; q_cur := Some a; q_n := q_n g; q_pend := q_pend g;
         q_stack := a :: q_stack g; q_open := q_open g; q_ez := q_ez g |} (a :: st) NN ltac:(cbn; lia)
      ltac:(cbn; rewrite KS; reflexivity) ltac:(cbn; eauto)) as H.
    unfold with_stack in H |- *. cbn [q_atoms q_edges q_cur q_n q_pend q_stack q_open q_ez app] in H |- *. exact H.
  - (* ")" *)
    cbn [nonnegb] in NN. destruct depth as [|d]; [discriminate NN|]. destruct st as [|y st']; [discriminate L|].
    cbn [gstep bind with_stack q_cur q_stack]. rewrite KS. cbn [app tl].
    pose proof (IH d
      {| q_atoms := q_atoms g; q_edges := q_edges g; q_cur := Some y; q_n := q_n g; q_pend := q_pend g;
         q_stack := st' ++ K; q_open := q_open g; q_ez := q_ez g |} st' NN ltac:(cbn in L; lia) eq_refl ltac:(cbn; eauto)) as H.
    unfold with_stack in H. cbn [q_atoms q_edges q_cur q_n q_pend q_stack q_open q_ez] in H. exact H.
  - rewrite (gstep_with_stack g _ t NO NC).
    assert (NN' : nonnegb depth r = true) by (destruct t; try exact NN; exfalso; auto).
    destruct (gstep false g t) as [g1|e] eqn:Eg; cbn [bind]; [|reflexivity].
    destruct (gstep_cur_some g t g1 a Ca Eg) as [a1 Ca1].
    assert (KS1 : q_stack g1 = st ++ K).
    { rewrite <- KS. clear - Eg NO NC. destruct t as [e|body annot|bd| | |bd m|fw|n]; cbn [gstep] in Eg;
        try (injection Eg as <-; reflexivity); try (exfalso; auto; fail).
      unfold add_ring in Eg. destruct (q_cur g) as [a|]; [|discriminate Eg].
      destruct (ring_get (marker_val m) (q_open g)) as [[j o]|].
      - destruct (merge_bond (option_map bchar bd) o); cbn [bind] in Eg; [|discriminate Eg].
        destruct (has_edge a j (q_edges g)); [discriminate Eg|]. destruct (Nat.eqb a j); [discriminate Eg|].
        injection Eg as <-. reflexivity.
      - injection Eg as <-. reflexivity. }
    apply (IH depth g1 st NN' L KS1). eauto.
Qed.

Theorem tail_paren_base x0 T g c : grun false ginit x0 = Ok g -> q_cur g = Some c -> nonnegb 0 T = true ->
  graph_base false (x0 ++ TOpen :: T ++ [TClose]) = graph_base false (x0 ++ T).
Proof.
  intros RX C NN. unfold graph_base. rewrite !(grun_app_ok false ginit x0 _ g RX). cbn [grun gstep bind]. rewrite C.
  change {| q_atoms := q_atoms g; q_edges := q_edges g; q_cur := Some c; q_n := q_n g; q_pend := q_pend g;
            q_stack := c :: q_stack g; q_open := q_open g; q_ez := q_ez g |}
    with {| q_atoms := q_atoms g; q_edges := q_edges g; q_cur := Some c; q_n := q_n g; q_pend := q_pend g;
            q_stack := [] ++ c :: q_stack g; q_open := q_open g; q_ez := q_ez g |}.
  rewrite <- C. fold (with_stack g ([] ++ c :: q_stack g)). rewrite grun_app.
  pose proof (paren_run c (q_stack g) T 0 g [] NN eq_refl eq_refl ltac:(eauto)) as H.
  destruct (grun false g T) as [g1|e], (grun false (with_stack g ([] ++ c :: q_stack g)) T) as [h1|e']; cbn [bind];
    try contradiction; [|congruence].
  destruct H as [st1 ->]. reflexivity.
Qed.
Theorem tail_paren x0 T g c : grun false ginit x0 = Ok g -> q_cur g = Some c -> nonnegb 0 T = true ->
  graph_of false (x0 ++ TOpen :: T ++ [TClose]) = graph_of false (x0 ++ T).
Proof. intros RX C NN. unfold graph_of. rewrite (tail_paren_base x0 T g c RX C NN). reflexivity. Qed.

(** * elementary rewritings and their sequences *)
Definition sid (i : nat) : nat := i.
Inductive rw1 : list tok -> list tok -> (nat -> nat) -> Prop :=
| rw_reroot a P b x R :
    is_atomtok a = true -> is_atomtok x = true -> blocksb false 0 P = true ->
    rw1 (rr_src a P b x R) (rr_dst a P b x R) (rot (Datatypes.S (count_atoms P)))
| rw_swap x pa pb y g c :
    grun false ginit x = Ok g -> q_cur g = Some c -> q_pend g = None -> is_block pa = true -> is_block pb = true ->
    rw1 (x ++ pa ++ pb ++ y) (x ++ pb ++ pa ++ y) (swap_sigma (q_n g) (count_atoms pa) (count_atoms pb))
| rw_rswap x pa pb y g c :
    grun false ginit x = Ok g -> q_cur g = Some c -> q_pend g = None ->
    is_rblock pa = true -> is_rblock pb = true -> rings_local pa = true -> rings_local pb = true -> fresh g pa -> fresh g pb ->
    rw1 (x ++ pa ++ pb ++ y) (x ++ pb ++ pa ++ y) (swap_sigma (q_n g) (count_atoms pa) (count_atoms pb))
| rw_xswap x pa pb y g c :
    grun false ginit x = Ok g -> q_cur g = Some c -> q_pend g = None ->
    is_rblock pa = true -> is_rblock pb = true -> rings_local pb = true -> fresh g pa -> fresh g pb -> avoids pa pb ->
    rw1 (x ++ pa ++ pb ++ y) (x ++ pb ++ pa ++ y) (swap_sigma (q_n g) (count_atoms pa) (count_atoms pb))
| rw_gswap x pa pb y g c :
    grun false ginit x = Ok g -> q_cur g = Some c -> q_pend g = None ->
    is_rblock pa = true -> is_rblock pb = true -> disj pa pb ->
    rw1 (x ++ pa ++ pb ++ y) (x ++ pb ++ pa ++ y) (swap_sigma (q_n g) (count_atoms pa) (count_atoms pb))
| rw_paren x0 T g c :
    grun false ginit x0 = Ok g -> q_cur g = Some c -> nonnegb 0 T = true ->
    rw1 (x0 ++ T) (x0 ++ TOpen :: T ++ [TClose]) sid
| rw_unparen x0 T g c :
    grun false ginit x0 = Ok g -> q_cur g = Some c -> nonnegb 0 T = true ->
    rw1 (x0 ++ TOpen :: T ++ [TClose]) (x0 ++ T) sid.
Inductive rws : list tok -> list tok -> (nat -> nat) -> Prop :=
| rws_nil w : rws w w sid
| rws_cons w1 w2 w3 s s' : rw1 w1 w2 s -> rws w2 w3 s' -> rws w1 w3 (sigma_comp s' s).

Lemma base_perm_rel s (r1 r2 : res base_obs) :
  match r1, r2 with
  | Ok b1, Ok b2 => exists n, base_perm s n b1 b2 /\ sigma_ok s n
  | Err e, Err e' => e = e'
  | _, _ => False
  end -> base_rel s r1 r2.
Proof.
  unfold base_rel. destruct r1, r2; auto. intros [n [BP SO]]. exists n. split; [apply base_perm_uperm; exact BP|exact SO].
Qed.
Theorem rw1_sound w w' s : rw1 w w' s -> graphs_rel s (graph_of false w) (graph_of false w').
Proof.
  intros H. destruct H.
  - apply reroot_step; assumption.
  - apply (base_rel_graphs _ (graph_base false _) (graph_base false _)). apply base_perm_rel.
    apply (swap_branches_base x pa pb y g c); assumption.
  - apply (base_rel_graphs _ (graph_base false _) (graph_base false _)). apply base_perm_rel.
    apply (swap_rbranches_base x pa pb y g c); assumption.
  - apply (base_rel_graphs _ (graph_base false _) (graph_base false _)). apply base_perm_rel.
    apply (xswap_branches_base x pa pb y g c); assumption.
  - apply (base_rel_graphs _ (graph_base false _) (graph_base false _)). apply base_perm_rel.
    apply (gswap_branches_base x pa pb y g c); assumption.
  - rewrite (tail_paren x0 T g c) by assumption. apply graphs_rel_refl.
  - rewrite (tail_paren x0 T g c) by assumption. apply graphs_rel_refl.
Qed.
Theorem rws_sound w w' s : rws w w' s -> graphs_rel s (graph_of false w) (graph_of false w').
Proof.
  intros H. induction H as [w|w1 w2 w3 s s' H1 H2 IH]; [apply graphs_rel_refl|].
  apply (graphs_rel_trans _ _ _ (graph_of false w2)); [apply rw1_sound; exact H1|exact IH].
Qed.
Theorem rws_sound_text w w' s : wf_smiles w = true -> wf_smiles w' = true -> rws w w' s ->
  graphs_rel s (smiles_parse (render_smiles false w)) (smiles_parse (render_smiles false w')).
Proof. intros W1 W2 H. rewrite (render_parse false _ W1), (render_parse false _ W2). apply rws_sound. exact H. Qed.

(** non-vacuity: C(C)(F)(C=O)N written from the F of its second branch, F(C(C)(C=O)(N)):
    tail as branch, two exchanges, branch as tail, re-rooting *)
Definition tC := TAtom (S "C").
Definition bC := [TOpen; tC; TClose].
Definition bF := [TOpen; TAtom (S "F"); TClose].
Definition bCO := [TOpen; tC; TBond BDouble; TAtom (S "O"); TClose].
Definition bN := [TOpen; TAtom (S "N"); TClose].
Definition rw_w0 : list tok := tC :: bC ++ bF ++ bCO ++ [TAtom (S "N")].
Definition rw_w5 : list tok := rr_dst tC (bC ++ bCO ++ bN) None (TAtom (S "F")) [].
Lemma rewrite_example :
  to_string (render_smiles false rw_w0) = "C(C)(F)(C=O)N"%string /\
  to_string (render_smiles false rw_w5) = "F(C(C)(C=O)(N))"%string /\
  wf_smiles rw_w0 = true /\ wf_smiles rw_w5 = true /\
  (exists s, rws rw_w0 rw_w5 s /\ map s [0; 1; 2; 3; 4; 5] = [1; 2; 0; 3; 4; 5]) /\
  (exists G H, graph_of false rw_w0 = Ok G /\ graph_of false rw_w5 = Ok H /\
     g_edges G = [(0, 1, VInt 1); (0, 2, VInt 1); (0, 3, VInt 1); (3, 4, VInt 2); (0, 5, VInt 1)] /\
     g_edges H = [(0, 1, VInt 1); (1, 2, VInt 1); (1, 3, VInt 1); (3, 4, VInt 2); (1, 5, VInt 1)]).
Proof.
  split; [vm_compute; reflexivity|]. split; [vm_compute; reflexivity|].
  split; [vm_compute; reflexivity|]. split; [vm_compute; reflexivity|]. split.
  - eexists. split.
    + eapply rws_cons.
      { eapply (rw_paren (tC :: bC ++ bF ++ bCO) [TAtom (S "N")]); vm_compute; reflexivity. }
      eapply rws_cons.
      { eapply (rw_swap (tC :: bC) bF bCO bN); vm_compute; reflexivity. }
      eapply rws_cons.
      { eapply (rw_swap (tC :: bC ++ bCO) bF bN []); vm_compute; reflexivity. }
      eapply rws_cons.
      { eapply (rw_unparen (tC :: bC ++ bCO ++ bN) [TAtom (S "F")]); vm_compute; reflexivity. }
      eapply rws_cons.
      { apply (rw_reroot tC (bC ++ bCO ++ bN) None (TAtom (S "F")) []); vm_compute; reflexivity. }
      apply rws_nil.
    + vm_compute. reflexivity.
  - eexists. eexists. split; [vm_compute; reflexivity|]. split; [vm_compute; reflexivity|]. split; reflexivity.
Qed.
