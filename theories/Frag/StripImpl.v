(** StripImpl: Impl model of cgsmiles/read_fragments.py
      - [PeekIter]                  (literal: the truthiness tests on the peeked item)
      - [collect_ring_number]       (literal, on the PeekIter model, including the local [rings] dict)
      - [strip_bonding_descriptors] (character state machine, one [step] per character of the text)
      - the splitting done by [fragment_iter]
    The constant tables ([bond_to_order], [descriptor_kinds], [two_letter_elements],
    [passthrough_chars], [ez_chars]) are the ones GENERATED from read_fragments.py (Gen/FragGen.v);
    atom annotations are parsed by Dialect.DialectImpl.fragment_node_parser (float() is an oracle).
    Executable, total, no proofs here.

    How the machine relates to the Python text.  The Python function is a [for token in smile_iter]
    loop whose body pulls further characters with [next(smile_iter)] (inside brackets) or looks one
    character ahead with [smile_iter.peek()] (after a descriptor, in the two-letter element test,
    in collect_ring_number).  A [PeekIter] over a [str] yields one-character strings, which are all
    truthy, so [peek()] is a plain one-character look-ahead that answers [None] exactly at the end
    of the text ([PeekIter] is modelled literally below and [peekiter_abs_*] in FragProofs.v show
    this).  The machine therefore reads the text once, left to right; a pending [next()] or [peek()]
    of the Python code is a [mode]; the end of the text in a mode with a pending [next()] is the
    StopIteration that escapes the function, in a mode with a pending [peek()] it is the [None]
    answer. *)
From Coq Require Import String.
From Coq Require Import List Ascii ZArith Bool.
From CGV Require Import Base.PyBase Base.PyVal Gen.FragGen Dialect.DialectImpl Frag.NDict.
Import ListNotations.

(** * PeekIter (literal) *)
Record peekiter := { pi_coll : pystr; pi_pk : option ascii }.
Definition pi_new (s : pystr) : peekiter := {| pi_coll := s; pi_pk := None |}.
(** truthiness of [self._peek]: [None] is falsy, a one-character string is truthy *)
Definition pk_truthy (o : option ascii) : bool := match o with Some _ => true | None => false end.
(** [__next__] *)
Definition pi_next (it : peekiter) : res (ascii * peekiter) :=
  if pk_truthy (pi_pk it) then
    match pi_pk it with
    | Some c => Ok (c, {| pi_coll := pi_coll it; pi_pk := None |})
    | None => Err EStopIter
    end
  else match pi_coll it with
       | [] => Err EStopIter
       | c :: r => Ok (c, {| pi_coll := r; pi_pk := pi_pk it |})
       end.
(** [peek()] *)
Definition pi_peek (it : peekiter) : option ascii * peekiter :=
  if pk_truthy (pi_pk it) then (pi_pk it, it)
  else match pi_next it with
       | Ok (c, it') => (Some c, {| pi_coll := pi_coll it'; pi_pk := Some c |})
       | Err _ => (None, {| pi_coll := pi_coll it; pi_pk := None |})
       end.
(** what [list(it)] would still yield *)
Definition pi_rest (it : peekiter) : pystr :=
  match pi_pk it with Some c => c :: pi_coll it | None => pi_coll it end.

(** * collect_ring_number (literal) *)
Definition ringdict := list (pystr * list nat).
Fixpoint rings_append (k : pystr) (n : nat) (d : ringdict) : ringdict :=
  match d with
  | [] => [(k, [n])]
  | (k', l) :: r => if str_eqb k k' then (k', l ++ [n]) :: r else (k', l) :: rings_append k n r
  end.
Definition is_pct (c : ascii) : bool := Ascii.eqb c "%"%char.
Definition ringch (c : ascii) : bool := is_digit c || is_pct c.

(** the [while True] loop; [fuel] bounds the iterations (one per consumed character) *)
Fixpoint crn_loop (fuel : nat) (it : peekiter) (token : ascii) (multi_ring : bool) (ring_token partial_str : pystr)
         (rings : ringdict) (node_count : nat) : res (peekiter * option ascii * pystr * ringdict) :=
  match fuel with
  | O => Err EOutOfFuel
  | Datatypes.S f =>
      let '(multi_ring, ring_token, rings) :=
        if multi_ring && is_pct token then (multi_ring, ring_token, rings_append ring_token node_count rings)
        else if multi_ring && is_digit token then (multi_ring, ring_token ++ [token], rings)
        else if is_pct token then (true, ring_token ++ [token], rings)
        else if multi_ring then (multi_ring, [], rings_append ring_token node_count rings)
        else if is_digit token then (multi_ring, ring_token, rings_append [token] node_count rings)
        else (multi_ring, ring_token, rings) in
      let partial_str := partial_str ++ [token] in
      let '(pk, it) := pi_peek it in
      if (match pk with Some t => negb (is_digit t) && negb (is_pct t) | None => false end)
      then Ok (it, pk, partial_str, rings)
      else match pi_next it with
           | Ok (t, it') => crn_loop f it' t multi_ring ring_token partial_str rings node_count
           | Err _ => Ok (it, pk, partial_str, rings)
           end
  end.
Definition collect_ring_number (it : peekiter) (token : ascii) (node_count : nat) (rings : ringdict)
  : res (peekiter * option ascii * pystr * ringdict) :=
  crn_loop (Datatypes.S (length (pi_rest it))) it token false [token] [] rings node_count.

(** * the splitting of fragment_iter *)
Definition split_fragment (fragment : pystr) : pystr * pystr :=
  match find_char "="%char fragment 0 with
  | Some d => (py_slice fragment 1 d, skipn (Datatypes.S d) fragment)
  | None => (removelast (skipn 1 fragment), fragment)        (* find = -1: fragment[1:-1], fragment[0:] *)
  end.
Definition fragment_split (fragment_str : pystr) : list (pystr * pystr) :=
  map split_fragment (py_split (removelast (skipn 1 fragment_str)) ","%char).

(** * strip_bonding_descriptors *)
Inductive mode :=
| MTop                                        (* at the head of the [for] loop *)
| MOpen                                       (* after '[' : [peek = next(smile_iter)] pending *)
| MDesc (d : pystr)                           (* inside a descriptor: [while peek != ']'], [next] pending *)
| MDescEnd (d : pystr)                        (* descriptor closed: [smile_iter.peek()] pending *)
| MAtom (atom attribute_str : pystr) (record_attributes : bool)   (* inside a bracket atom, [next] pending *)
| MRing                                       (* inside collect_ring_number: [smile_iter.peek()] pending *)
| MElem (c : ascii).                          (* else branch: [smile_iter.peek()] of the two-letter test pending *)

Record mst := {
  m_mode : mode;
  smile : pystr;
  node_count : nat;
  prev_node : nat;
  current_order : option pyval;               (* None = Python None *)
  anchor : list nat;                          (* top of the stack first *)
  bonding_descrpt : ndict (list pystr);
  ez_isomer_atoms : ndict ascii;
  attributes : ndict attrs }.

Definition init : mst :=
  {| m_mode := MTop; smile := []; node_count := 0; prev_node := 0; current_order := None; anchor := [];
     bonding_descrpt := []; ez_isomer_atoms := []; attributes := [] |}.

Definition set_mode (m : mst) (md : mode) : mst :=
  {| m_mode := md; smile := smile m; node_count := node_count m; prev_node := prev_node m;
     current_order := current_order m; anchor := anchor m; bonding_descrpt := bonding_descrpt m;
     ez_isomer_atoms := ez_isomer_atoms m; attributes := attributes m |}.
Definition emit (m : mst) (s : pystr) : mst :=
  {| m_mode := m_mode m; smile := smile m ++ s; node_count := node_count m; prev_node := prev_node m;
     current_order := current_order m; anchor := anchor m; bonding_descrpt := bonding_descrpt m;
     ez_isomer_atoms := ez_isomer_atoms m; attributes := attributes m |}.

(** [str(order)] *)
Definition str_of_order (v : pyval) : pystr :=
  match v with VInt z => str_of_Z z | VFlt r => r | _ => [] end.
Definition order_lookup (c : ascii) : option pyval :=
  match bond_to_order_lookup [c] with Ok v => Some v | Err _ => None end.

(** a new atom was read: [current_order = None; prev_node = node_count; node_count += 1] after
    [smile += text] *)
Definition atom_done (m : mst) (text : pystr) : mst :=
  {| m_mode := MTop; smile := smile m ++ text; node_count := Datatypes.S (node_count m); prev_node := node_count m;
     current_order := None; anchor := anchor m; bonding_descrpt := bonding_descrpt m;
     ez_isomer_atoms := ez_isomer_atoms m; attributes := attributes m |}.

(** the descriptor [d] is complete and the next character is NOT taken as its order
    ([elif current_order is not None: … else: order = 1]) *)
Definition desc_done (m : mst) (d : pystr) : mst :=
  match current_order m with
  | Some order =>
    {| m_mode := MTop; smile := py_drop_last (smile m); node_count := node_count m; prev_node := prev_node m;
       current_order := None; anchor := anchor m;
       bonding_descrpt := nd_append (prev_node m) (d ++ str_of_order order) (bonding_descrpt m);
       ez_isomer_atoms := ez_isomer_atoms m; attributes := attributes m |}
  | None =>
    {| m_mode := MTop; smile := smile m; node_count := node_count m; prev_node := prev_node m;
       current_order := None; anchor := anchor m;
       bonding_descrpt := nd_append (prev_node m) (d ++ str_of_order (VInt 1)) (bonding_descrpt m);
       ez_isomer_atoms := ez_isomer_atoms m; attributes := attributes m |}
  end.
(** [if smile_iter.peek() in bond_to_order and node_count == 0: order = bond_to_order[next(smile_iter)]] *)
Definition desc_done_lead (m : mst) (d : pystr) (order : pyval) : mst :=
  {| m_mode := MTop; smile := smile m; node_count := node_count m; prev_node := prev_node m;
     current_order := current_order m; anchor := anchor m;
     bonding_descrpt := nd_append (prev_node m) (d ++ str_of_order order) (bonding_descrpt m);
     ez_isomer_atoms := ez_isomer_atoms m; attributes := attributes m |}.

(** the bracket atom is closed *)
Definition bracket_done (fo : float_oracle) (m : mst) (atom attribute_str : pystr) : res mst :=
  node_attributes <- fragment_node_parser fo attribute_str ;;
  Ok {| m_mode := MTop; smile := smile m ++ atom ++ ["]"%char]; node_count := Datatypes.S (node_count m);
        prev_node := node_count m; current_order := None; anchor := anchor m;
        bonding_descrpt := bonding_descrpt m; ez_isomer_atoms := ez_isomer_atoms m;
        attributes := nd_update (node_count m) node_attributes (attributes m) |}.

(** one pass of the [while peek != ']'] loop of a bracket atom, on the character [c] *)
Definition atom_step (fo : float_oracle) (m : mst) (atom attribute_str : pystr) (rec : bool) (c : ascii) : res mst :=
  if Ascii.eqb c "]"%char then bracket_done fo m atom attribute_str
  else if Ascii.eqb c ";"%char && negb rec then Ok (set_mode m (MAtom atom attribute_str true))
  else if rec then Ok (set_mode m (MAtom atom (attribute_str ++ [c]) rec))
  else Ok (set_mode m (MAtom (atom ++ [c]) attribute_str rec)).

(** a ring digit or '%': collect_ring_number takes it and the digits / '%' that follow (mode MRing),
    [smile += part_str], then [current_order = None].  Nothing reads [current_order] while the run
    is collected, so it is cleared when the run is entered. *)
Definition ring_enter (m : mst) (c : ascii) : mst :=
  {| m_mode := MRing; smile := smile m ++ [c]; node_count := node_count m; prev_node := prev_node m;
     current_order := None; anchor := anchor m; bonding_descrpt := bonding_descrpt m;
     ez_isomer_atoms := ez_isomer_atoms m; attributes := attributes m |}.

(** the if/elif chain of the [for] body on the character [c] *)
Definition top_step (m : mst) (c : ascii) : res mst :=
  if Ascii.eqb c "["%char then Ok (set_mode m MOpen)
  else if Ascii.eqb c "("%char then
    Ok {| m_mode := MTop; smile := smile m ++ [c]; node_count := node_count m; prev_node := prev_node m;
          current_order := current_order m; anchor := prev_node m :: anchor m;
          bonding_descrpt := bonding_descrpt m; ez_isomer_atoms := ez_isomer_atoms m; attributes := attributes m |}
  else if Ascii.eqb c ")"%char then
    match anchor m with
    | [] => Err EIndex                                             (* pop from empty list *)
    | a :: rest =>
        Ok {| m_mode := MTop; smile := smile m ++ [c]; node_count := node_count m; prev_node := a;
              current_order := current_order m; anchor := rest;
              bonding_descrpt := bonding_descrpt m; ez_isomer_atoms := ez_isomer_atoms m; attributes := attributes m |}
    end
  else match order_lookup c with
  | Some v =>
      Ok {| m_mode := MTop; smile := smile m ++ [c]; node_count := node_count m; prev_node := prev_node m;
            current_order := Some v; anchor := anchor m;
            bonding_descrpt := bonding_descrpt m; ez_isomer_atoms := ez_isomer_atoms m; attributes := attributes m |}
  | None =>
      if ringch c then Ok (ring_enter m c)                       (* collect_ring_number(…, prev_node, rings) *)
      else if char_in c passthrough_chars then Ok (emit m [c])
      else if char_in c ez_chars then
        Ok {| m_mode := MTop; smile := smile m; node_count := node_count m; prev_node := prev_node m;
              current_order := current_order m; anchor := anchor m; bonding_descrpt := bonding_descrpt m;
              ez_isomer_atoms := nd_set (prev_node m) c (nd_set (node_count m) c (ez_isomer_atoms m));
              attributes := attributes m |}
      else Ok (set_mode m (MElem c))
  end.

(** resolve a pending [peek()] when the peeked character is not consumed (or there is none) *)
Definition flush (m : mst) : mst :=
  match m_mode m with
  | MDescEnd d => desc_done m d
  | MRing => set_mode m MTop
  | MElem c0 => atom_done m [c0]
  | _ => m
  end.

Definition is_kind (c : ascii) : bool := str_in [c] descriptor_kinds.
Definition two_letter (c0 c : ascii) : bool := str_in [c0; c] two_letter_elements.
(** does the peeked character [c] get consumed by the pending test of [m]? *)
Definition combines (m : mst) (c : ascii) : bool :=
  match m_mode m with
  | MDescEnd _ => match order_lookup c with Some _ => Nat.eqb (node_count m) 0 | None => false end
  | MElem c0 => two_letter c0 c
  | _ => false
  end.

Definition step (fo : float_oracle) (m : mst) (c : ascii) : res mst :=
  match m_mode m with
  | MTop => top_step m c
  | MOpen =>
      if is_kind c then Ok (set_mode m (MDesc [c]))
      else atom_step fo m ["["%char] [] false c
  | MDesc d => if Ascii.eqb c "]"%char then Ok (set_mode m (MDescEnd d)) else Ok (set_mode m (MDesc (d ++ [c])))
  | MDescEnd d =>
      if combines m c then
        match order_lookup c with Some v => Ok (desc_done_lead m d v) | None => Err EKey end
      else top_step (flush m) c
  | MAtom atom attr rec => atom_step fo m atom attr rec c
  | MRing => top_step (flush m) c       (* a further digit or '%' re-enters MRing through top_step *)
  | MElem c0 =>
      if combines m c then Ok (atom_done m [c0; c])
      else top_step (flush m) c
  end.

Fixpoint run (fo : float_oracle) (m : mst) (s : pystr) : res mst :=
  match s with
  | [] => Ok m
  | c :: r => m' <- step fo m c ;; run fo m' r
  end.

Definition result := (pystr * ndict (list pystr) * ndict ascii * ndict attrs)%type.
Definition result_of (m : mst) : result := (smile m, bonding_descrpt m, ez_isomer_atoms m, attributes m).

(** end of the text *)
Definition finish (m : mst) : res result :=
  match m_mode m with
  | MOpen | MDesc _ | MAtom _ _ _ => Err EStopIter       (* next(smile_iter) at the end of the text *)
  | _ => Ok (result_of (flush m))
  end.

Definition strip_bonding_descriptors (fo : float_oracle) (fragment_string : pystr) : res result :=
  m <- run fo init fragment_string ;; finish m.
