(** SmilesSpec: the token-level meaning of an atomistic fragment text (specification side of
    [render_parse], DESIGN 3/C01 text level).  [graph_of ks toks] is the molecular graph a token list
    denotes: atom i is the i-th atom token; an atom is bonded to the current atom (the atom before
    it, or the atom its branch hangs on) with the order of the bond symbol written before it; a
    ring-bond marker either opens (remembering atom and symbol) or closes a ring bond to the atom
    that opened the same number; slash marks are recorded on the atom before and the atom after
    (when [ks]; the clean text of strip_bonding_descriptors carries no slash marks: [ks = false]).
    Bond orders and atom attributes are read off at the end ([interpret]): order of the symbol, 1.5
    between two aromatic atoms without symbol, else 1.  No characters, no look-ahead.  No proofs. *)
From Coq Require Import String.
From Coq Require Import List Ascii ZArith Bool.
From CGV Require Import Base.PyBase Base.PyVal Frag.NDict Frag.FragText Frag.SmilesParse.
Import ListNotations.

(** the text pysmiles is given for a token *)
Definition smiles_tok (ks : bool) (t : tok) : pystr :=
  match t with
  | TSlash f => if ks then [slash_char f] else []
  | _ => clean_tok t
  end.
Definition render_smiles (ks : bool) (toks : list tok) : pystr := flat_map (smiles_tok ks) toks.

(** ring-bond number of a marker: a digit, or the two digits after '%' *)
Definition marker_val (m : pystr) : Z :=
  match m with
  | [d] => Z.of_nat (digit_val d)
  | _ :: ds => digits_val 0 ds
  | [] => 0%Z
  end.
Definition marker_smiles_ok (m : pystr) : bool :=
  match m with
  | [d] => is_digit d
  | [p; d1; d2] => is_percent p && is_digit d1 && is_digit d2
  | _ => false
  end.

Record gst := {
  q_atoms : list pystr;                       (* texts of the atom tokens so far *)
  q_edges : list (nat * nat * bondstr);       (* bonds so far, with the symbol written (None = none) *)
  q_cur : option nat;                         (* the atom the next atom / marker / branch attaches to *)
  q_n : nat;                                  (* atoms so far *)
  q_pend : bondstr;                           (* bond symbol written and not used yet *)
  q_stack : list nat;                         (* atoms the open branches hang on *)
  q_open : list (Z * (nat * bondstr));        (* open ring bonds: number -> (atom, symbol) *)
  q_ez : list (option nat * ascii) }.
Definition ginit : gst :=
  {| q_atoms := []; q_edges := []; q_cur := None; q_n := 0; q_pend := None; q_stack := []; q_open := []; q_ez := [] |}.

Definition add_atom (g : gst) (text : pystr) : gst :=
  {| q_atoms := q_atoms g ++ [text];
     q_edges := match q_cur g with Some a => q_edges g ++ [(a, q_n g, q_pend g)] | None => q_edges g end;
     q_cur := Some (q_n g); q_n := Datatypes.S (q_n g); q_pend := None;
     q_stack := q_stack g; q_open := q_open g; q_ez := q_ez g |}.
(** symbols on the two ends of a ring bond: at most one, or the same one *)
Definition merge_bond (here there : bondstr) : res bondstr :=
  match here, there with
  | None, None => Ok None
  | Some x, None => Ok (Some x)
  | None, Some y => Ok (Some y)
  | Some x, Some y => if Ascii.eqb x y then Ok (Some x) else Err EValue
  end.
Definition add_ring (g : gst) (b : bondstr) (z : Z) : res gst :=
  match q_cur g with
  | None => Err EValue
  | Some a =>
      match ring_get z (q_open g) with
      | Some (j, o) =>
          nb <- merge_bond b o ;;
          if has_edge a j (q_edges g) then Err EValue          (* the two atoms are bonded already *)
          else if Nat.eqb a j then Err EValue                  (* ring bond from an atom to itself *)
          else Ok {| q_atoms := q_atoms g; q_edges := q_edges g ++ [(a, j, nb)]; q_cur := q_cur g; q_n := q_n g;
                     q_pend := None; q_stack := q_stack g; q_open := ring_del z (q_open g); q_ez := q_ez g |}
      | None =>
          Ok {| q_atoms := q_atoms g; q_edges := q_edges g; q_cur := q_cur g; q_n := q_n g; q_pend := None;
                q_stack := q_stack g; q_open := q_open g ++ [(z, (a, b))]; q_ez := q_ez g |}
      end
  end.
Definition gstep (ks : bool) (g : gst) (t : tok) : res gst :=
  match t with
  | TAtom _ | TBracket _ _ => Ok (add_atom g (clean_tok t))
  | TBond b =>
      Ok {| q_atoms := q_atoms g; q_edges := q_edges g; q_cur := q_cur g; q_n := q_n g; q_pend := Some (bchar b);
            q_stack := q_stack g; q_open := q_open g; q_ez := q_ez g |}
  | TOpen =>
      Ok {| q_atoms := q_atoms g; q_edges := q_edges g; q_cur := q_cur g; q_n := q_n g; q_pend := q_pend g;
            q_stack := match q_cur g with Some a => a :: q_stack g | None => q_stack g end;
            q_open := q_open g; q_ez := q_ez g |}
  | TClose =>
      Ok {| q_atoms := q_atoms g; q_edges := q_edges g;
            q_cur := match q_stack g with a :: _ => Some a | [] => q_cur g end; q_n := q_n g; q_pend := q_pend g;
            q_stack := tl (q_stack g); q_open := q_open g; q_ez := q_ez g |}
  | TRing b m => add_ring g (option_map bchar b) (marker_val m)
  | TSlash f =>
      if ks then
        Ok {| q_atoms := q_atoms g; q_edges := q_edges g; q_cur := q_cur g; q_n := q_n g; q_pend := q_pend g;
              q_stack := q_stack g; q_open := q_open g;
              q_ez := ez_set (Some (q_n g)) (slash_char f) (ez_set (q_cur g) (slash_char f) (q_ez g)) |}
      else Ok g
  | TMult _ => Ok g
  end.
Fixpoint grun (ks : bool) (g : gst) (toks : list tok) : res gst :=
  match toks with [] => Ok g | t :: r => g' <- gstep ks g t ;; grun ks g' r end.
Definition graph_base (ks : bool) (toks : list tok) : res base_obs :=
  g <- grun ks ginit toks ;; Ok (q_atoms g, q_edges g, q_ez g).
Definition graph_of (ks : bool) (toks : list tok) : res sgraph :=
  b <- graph_base ks toks ;; interpret b.

(** * the domain: atomistic token lists *)
Definition tok_smiles_ok (t : tok) : bool :=
  match t with
  | TAtom e => str_in e organic_atoms
  | TBracket body _ => forallb (fun c => negb (is_rbr c)) body
  | TRing _ m => marker_smiles_ok m
  | TMult _ => false
  | _ => true
  end.
Fixpoint wf_toks (z : zone) (depth : nat) (toks : list tok) : bool :=
  match toks with
  | [] => is_zatom z && Nat.eqb depth 0
  | t :: r =>
      tok_smiles_ok t &&
      match t with
      | TAtom _ | TBracket _ _ => wf_toks ZAtom depth r
      | TBond _ | TSlash _ => match z with ZAtom | ZOpen => wf_toks ZBond depth r | _ => false end
      | TOpen => is_zatom z && wf_toks ZOpen (Datatypes.S depth) r
      | TClose => is_zatom z && match depth with O => false | Datatypes.S d => wf_toks ZAtom d r end
      | TRing _ _ => is_zatom z && wf_toks ZAtom depth r
      | TMult _ => false
      end
  end.
Definition wf_smiles (toks : list tok) : bool := wf_toks ZStart 0 toks.
