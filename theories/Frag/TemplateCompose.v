(** TemplateCompose: the final template of a rendered part satisfies Compose's [is_template].
    [template_final_of_render]: the machines (strip, pysmiles model, hydrogen count, attribute
    setting: TemplateFinal.v) return the token-level template [template_final_spec].
    [template_is_template]: if the cut agrees with that token-level reading of the part
    ([cut_agrees]: as many atoms; the written descriptors of atom i are the cut's descriptors of the
    i-th atom of the part; the cut's payload is found on the node; the bonds of the token graph are the
    cut's bonds inside the part, with the same orders) and the text is [plain] (no chirality mark;
    annotation keys do not collide with fragid / fragname / bonding / ez_isomer_atoms / rs_isomer),
    then the networkx graph of the template ([tmpl_graph]) is a template of the part. *)
From Coq Require Import String.
From Coq Require Import List Ascii ZArith Bool Lia.
From CGV Require Import Base.PyBase Base.PyVal Base.NxGraph Dialect.DialectImpl Frag.NDict Frag.StripImpl Frag.FragText
     Frag.FragProofs Frag.SmilesParse Frag.SmilesSpec Frag.SmilesProofs Frag.SmilesPerm Frag.Template Frag.TemplateProofs
     Frag.TemplateFinal Frag.TemplateGraph.
From CGV Require Import Resolve.CutBonding Compose.PyEq Compose.CutModel Compose.CutSpecDefs Compose.CutSpecCheck.
Import ListNotations.
Local Open Scope nat_scope.

Definition template_final_spec (fo : float_oracle) (name : pystr) (toks : list tok) (dc : decor) : res tmpl :=
  '(_, d, ez, a) <- strip_spec fo toks dc ;;
  G <- graph_of false toks ;;
  final_assemble name G d ez a.
Theorem template_final_of_render fo name toks dc :
  wf toks dc = true -> excluded toks dc = false -> wf_smiles toks = true ->
  fragment_template_final fo name (render (decorate toks dc)) = template_final_spec fo name toks dc.
Proof.
  intros W X WS. unfold fragment_template_final, template_final_spec. rewrite (strip_correct fo toks dc W X).
  destruct (strip_spec fo toks dc) as [[[[clean d] e] a]|err] eqn:ES; cbn [bind]; [|reflexivity].
  rewrite (strip_spec_clean fo toks dc clean d e a ES), (clean_not_H toks WS), (render_parse false toks WS).
  reflexivity.
Qed.

(** node i of the final template comes from node i of the token graph *)
Lemma final_nodes_nth name E single d ez ann : forall nodes k ns, final_nodes name E single d ez ann k nodes = Ok ns ->
  length ns = length nodes /\
  forall i a, nth_error ns i = Some a -> exists base, nth_error nodes i = Some base /\ final_node name E single d ez ann (k + i) base = Ok a.
Proof.
  induction nodes as [|b r IH]; intros k ns H; cbn [final_nodes] in H.
  - inversion H. split; [reflexivity|]. intros i a N. destruct i; discriminate N.
  - destruct (final_node name E single d ez ann k b) as [x|e] eqn:Ex; cbn [bind] in H; [|discriminate H].
    destruct (final_nodes name E single d ez ann (Datatypes.S k) r) as [xs|e] eqn:Er; cbn [bind] in H; [|discriminate H].
    inversion H; subst ns. destruct (IH _ _ Er) as [L P]. split; [cbn; lia|].
    intros [|i] a N; cbn in N.
    + inversion N; subst. exists b. split; [reflexivity|]. rewrite Nat.add_0_r. exact Ex.
    + destruct (P i a N) as [base [N1 F1]]. exists base. split; [exact N1|]. rewrite <- F1. f_equal. lia.
Qed.
Lemma aget_adel_other k k' a : k <> k' -> aget k (adel k' a) = aget k a.
Proof.
  intros N. induction a as [|[k2 v2] r IH]; cbn; [reflexivity|].
  destruct (str_eqb_spec k' k2) as [->|N2].
  - destruct (str_eqb_spec k k2); [contradiction|reflexivity].
  - cbn. destruct (str_eqb k k2); [reflexivity|exact IH].
Qed.
Definition own_keys : list pystr := [S "hcount"; S "ez_isomer_class"; S "atomname"; S "single_h_frag"].
Lemma final_node_get name E single d ez ann i base a k : final_node name E single d ez ann i base = Ok a ->
  ~ In k own_keys -> aget k a = aget k (template_node name base (nd_get i d) (nd_get i ann)).
Proof.
  unfold final_node, own_keys. intros H NI.
  assert (N1 : k <> S "hcount") by (intros ->; apply NI; cbn; auto).
  assert (N2 : k <> S "ez_isomer_class") by (intros ->; apply NI; cbn; auto).
  assert (N3 : k <> S "atomname") by (intros ->; apply NI; cbn; auto).
  assert (N4 : k <> S "single_h_frag") by (intros ->; apply NI; cbn; auto).
  destruct (final_hcount E i base) as [h|x]; cbn [bind] in H; [|discriminate H].
  destruct (element_of base) as [el|x]; cbn [bind] in H; [|discriminate H].
  destruct (single && (h =? 0)%Z && str_eqb el (S "H")); inversion H; subst a; clear H;
    destruct (nd_get i ez);
    repeat first [rewrite aget_aset_other by assumption | rewrite aget_adel_other by assumption]; reflexivity.
Qed.

(** the text carries no chirality mark, and the annotations do not use the structural keys *)
Definition struct_keys : list pystr := [S "fragid"; S "fragname"; S "bonding"; S "ez_isomer_atoms"; S "rs_isomer"].
Definition plain (G : sgraph) (ann : ndict attrs) : Prop :=
  (forall base, In base (g_nodes G) ->
     aget (S "bonding") base = None /\ aget (S "ez_isomer_atoms") base = None /\ aget (S "rs_isomer") base = None) /\
  (forall i an k, nd_get i ann = Some an -> In k struct_keys -> aget k an = None).

(** the cut agrees with the token-level reading of the part *)
Record cut_agrees (C : cut) (xs : list Z) (T0 : tmpl) (d : ndict (list pystr)) : Prop := {
  ca_len : length (t_nodes T0) = length xs;
  ca_descs : forall i x, nth_error xs i = Some x ->
     bonding_val (descs C x) = option_map (fun l => VList (map VStr l)) (nd_get i d);
  ca_payload : forall i x a, nth_error xs i = Some x -> nth_error (t_nodes T0) i = Some a ->
     aget (S "aromatic") a = aget (S "aromatic") (payload C x) /\
     forall key v, aget key (payload C x) = Some v -> ~ In key reserved -> aget key a = Some v;
  ca_edges : forall u v o, In (u, v, o) (t_edges T0) ->
     exists x y b, nth_error xs u = Some x /\ nth_error xs v = Some y /\ In b (c_bonds C) /\ joins b x y = true /\ cb_ord b = o;
  ca_bonds : forall b ni nj, In b (c_bonds C) -> nth_error xs ni = Some (cb_u b) -> nth_error xs nj = Some (cb_v b) ->
     exists o, In (ni, nj, o) (t_edges T0) \/ In (nj, ni, o) (t_edges T0) }.

Lemma tmpl_graph_keys T : node_keys (tmpl_graph T) = map Z.of_nat (seq 0 (length (t_nodes T))).
Proof.
  unfold node_keys, tmpl_graph. rewrite map_map. generalize 0. induction (t_nodes T) as [|a r IH]; intros k; [reflexivity|].
  cbn. f_equal. apply IH.
Qed.
Lemma tmpl_graph_find E : forall nodes k i a, nth_error nodes i = Some a ->
  gfind (Z.of_nat (k + i)) (map (mknode E) (combine (seq k (length nodes)) nodes)) = Some (mknode E (k + i, a)).
Proof.
  induction nodes as [|b r IH]; intros k i a N; [destruct i; discriminate N|].
  cbn [length seq combine map gfind mknode nk fst]. destruct i as [|i]; cbn in N.
  - inversion N; subst. rewrite Nat.add_0_r, Z.eqb_refl. reflexivity.
  - destruct (Z.eqb_spec (Z.of_nat k) (Z.of_nat (k + Datatypes.S i))) as [Q|Q]; [apply Nat2Z.inj in Q; lia|].
    replace (k + Datatypes.S i) with (Datatypes.S k + i) by lia. apply IH. exact N.
Qed.
Lemma tmpl_graph_attrs T i a : nth_error (t_nodes T) i = Some a -> node_attrs (tmpl_graph T) (Z.of_nat i) = Ok a.
Proof.
  intros N. unfold node_attrs, tmpl_graph. pose proof (tmpl_graph_find (t_edges T) (t_nodes T) 0 i a N) as F. cbn in F.
  rewrite F. reflexivity.
Qed.
Lemma joins_sym b x y : joins b x y = joins b y x.
Proof. unfold joins. apply orb_comm. Qed.

Theorem template_is_template fo C name xs toks dc clean d ez ann G T0 :
  wf toks dc = true -> excluded toks dc = false -> wf_smiles toks = true ->
  strip_spec fo toks dc = Ok (clean, d, ez, ann) -> graph_of false toks = Ok G -> final_assemble name G d ez ann = Ok T0 ->
  plain G ann -> cut_agrees C xs T0 d ->
  fragment_template_final fo name (render (decorate toks dc)) = Ok T0 /\ is_template C name xs (tmpl_graph T0).
Proof.
  intros W X WS HS HG HA [PB PA] [CL CD CP CE CB].
  split.
  { rewrite (template_final_of_render fo name toks dc W X WS). unfold template_final_spec. rewrite HS, HG. exact HA. }
  unfold final_assemble in HA.
  destruct (final_nodes name (g_edges G) match g_nodes G with [_] => true | _ => false end d ez ann 0 (g_nodes G))
    as [ns|x] eqn:EN; cbn [bind] in HA; [|discriminate HA].
  inversion HA; subst T0; clear HA. cbn [t_nodes t_edges] in *.
  destruct (final_nodes_nth _ _ _ _ _ _ _ _ _ EN) as [LN NTH].
  destruct (graph_of_simple false toks G HG) as [SI BD].
  set (T0 := {| t_nodes := ns; t_edges := g_edges G |}).
  assert (ED : edges_data (tmpl_graph T0) = map toZ3 (elist (length ns) (g_edges G))) by (apply (edges_data_tmpl T0); exact (proj1 SI)).
  constructor.
  - rewrite tmpl_graph_keys. cbn. rewrite CL. reflexivity.
  - intros i x Nx.
    assert (I : i < length ns) by (rewrite CL; apply nth_error_Some; congruence).
    destruct (nth_error ns i) as [a|] eqn:Na; [|apply nth_error_None in Na; lia].
    exists a. split; [apply (tmpl_graph_attrs T0 i a Na)|].
    destruct (NTH i a Na) as [base [Nb FN]]. cbn [Nat.add] in FN.
    destruct (PB base (nth_error_In _ _ Nb)) as [B1 [B2 B3]].
    assert (AL : forall k, In k struct_keys -> ann_lacks k (nd_get i ann)).
    { intros k IK. unfold ann_lacks. destruct (nd_get i ann) as [an|] eqn:Ea; [apply (PA i an k Ea IK)|exact Logic.I]. }
    assert (OK : forall k, In k struct_keys -> ~ In k own_keys).
    { intros k IK IO. unfold struct_keys, own_keys in *. cbn in IK, IO.
      repeat (destruct IK as [<-|IK]; [repeat (destruct IO as [IO|IO]; [discriminate IO|]); contradiction|]). contradiction. }
    destruct (CP i x a Nx Na) as [AR PL].
    assert (K1 : In (S "fragid") struct_keys) by (cbn; auto).
    assert (K2 : In (S "fragname") struct_keys) by (cbn; auto).
    assert (K3 : In (S "bonding") struct_keys) by (cbn; auto).
    assert (K4 : In (S "ez_isomer_atoms") struct_keys) by (cbn; auto 6).
    assert (K5 : In (S "rs_isomer") struct_keys) by (cbn; auto 8).
    constructor.
    + rewrite (final_node_get _ _ _ _ _ _ _ _ _ (S "fragid") FN (OK _ K1)). apply template_node_fragid. apply AL. exact K1.
    + rewrite (final_node_get _ _ _ _ _ _ _ _ _ (S "fragname") FN (OK _ K2)). apply template_node_fragname. apply AL. exact K2.
    + rewrite (final_node_get _ _ _ _ _ _ _ _ _ (S "bonding") FN (OK _ K3)).
      rewrite template_node_bonding; [|apply AL; exact K3|exact B1]. symmetry. apply CD. exact Nx.
    + rewrite (final_node_get _ _ _ _ _ _ _ _ _ (S "ez_isomer_atoms") FN (OK _ K4)).
      rewrite template_node_base; [exact B2|apply AL; exact K4|discriminate|discriminate|discriminate|discriminate].
    + exact AR.
    + rewrite (final_node_get _ _ _ _ _ _ _ _ _ (S "rs_isomer") FN (OK _ K5)).
      rewrite template_node_base; [exact B3|apply AL; exact K5|discriminate|discriminate|discriminate|discriminate].
    + exact PL.
  - intros i j dd IN. rewrite ED in IN. apply in_map_iff in IN. destruct IN as [[[u v] o] [Q IN]]. cbn in Q. inversion Q; subst i j dd.
    apply in_elist in IN. destruct IN as [U [L IN]].
    assert (EX : exists x y b, nth_error xs u = Some x /\ nth_error xs v = Some y /\ In b (c_bonds C) /\ joins b x y = true /\ cb_ord b = o).
    { destruct IN as [IN|IN].
      - apply (CE u v o IN).
      - destruct (CE v u o IN) as [x [y [b [N1 [N2 [Ib [J O]]]]]]]. exists y, x, b. rewrite joins_sym. auto. }
    destruct EX as [x [y [b [N1 [N2 [Ib [J O]]]]]]]. exists u, v, x, y, b.
    repeat split; auto; cbn; try (rewrite O; reflexivity). repeat constructor. intros [].
  - apply (edges_list_tmpl_once T0). exact SI.
  - intros b ni nj Ib Nu Nv. destruct (CB b ni nj Ib Nu Nv) as [o IN].
    assert (BND : ni < length ns /\ nj < length ns /\ ni <> nj).
    { destruct IN as [IN|IN]; destruct (BD _ _ _ IN) as [A B]; pose proof (proj1 SI _ _ _ IN); rewrite LN; lia. }
    destruct BND as [B1 [B2 NE]].
    unfold edges_list. rewrite ED, map_map.
    destruct (Nat.lt_ge_cases ni nj) as [L|L].
    + left. apply in_map_iff. exists (ni, nj, o). split; [reflexivity|]. apply in_elist. tauto.
    + right. apply in_map_iff. exists (nj, ni, o). split; [reflexivity|]. apply in_elist. split; [exact B2|]. split; [lia|tauto].
Qed.

(** * decidable forms of the hypotheses, so that they can be discharged by computation *)
Definition is_none (o : option pyval) : bool := match o with None => true | Some _ => false end.
Definition plainb (G : sgraph) (ann : ndict attrs) : bool :=
  forallb (fun base => is_none (aget (S "bonding") base) && is_none (aget (S "ez_isomer_atoms") base)
                       && is_none (aget (S "rs_isomer") base)) (g_nodes G) &&
  forallb (fun ia => forallb (fun k => is_none (aget k (snd ia))) struct_keys) ann.
Lemma nd_get_in {A} i (d : ndict A) x : nd_get i d = Some x -> In (i, x) d.
Proof.
  induction d as [|[k y] r IH]; cbn; [discriminate|]. destruct (Nat.eqb_spec i k) as [->|N].
  - intros H. inversion H. left. reflexivity.
  - intros H. right. apply IH. exact H.
Qed.
Lemma is_none_sound o : is_none o = true -> o = None.
Proof. destruct o; [discriminate|reflexivity]. Qed.
Lemma plainb_sound G ann : plainb G ann = true -> plain G ann.
Proof.
  unfold plainb. intros H. apply andb_prop in H. destruct H as [H1 H2]. rewrite forallb_forall in H1, H2. split.
  - intros base IN. specialize (H1 base IN). apply andb_prop in H1. destruct H1 as [H1 Hc]. apply andb_prop in H1. destruct H1 as [Ha Hb].
    auto using is_none_sound.
  - intros i an k E IK. specialize (H2 (i, an) (nd_get_in _ _ _ E)). cbn [snd] in H2. rewrite forallb_forall in H2.
    apply is_none_sound. apply H2. exact IK.
Qed.

Definition edge_agreesb (C : cut) (xs : list Z) (e : nat * nat * pyval) : bool :=
  let '(u, v, o) := e in
  match nth_error xs u, nth_error xs v with
  | Some x, Some y => match find_bond C x y with Some b => pyval_eqb (cb_ord b) o | None => false end
  | _, _ => false
  end.
Definition bond_presentb (E : list (nat * nat * pyval)) (ni nj : nat) : bool :=
  existsb (fun e => let '(u, v, _) := e in (Nat.eqb u ni && Nat.eqb v nj) || (Nat.eqb u nj && Nat.eqb v ni)) E.
Definition cut_agreesb (C : cut) (xs : list Z) (T0 : tmpl) (d : ndict (list pystr)) : bool :=
  Nat.eqb (length (t_nodes T0)) (length xs) &&
  forallb (fun ix => oeqb (bonding_val (descs C (snd ix)))
                          (option_map (fun l => VList (map VStr l)) (nd_get (fst ix) d)))
          (combine (seq 0 (length xs)) xs) &&
  forallb (fun ixa => let '(i, x) := fst ixa in let a := snd ixa in
             oeqb (aget (S "aromatic") a) (aget (S "aromatic") (payload C x)) &&
             forallb (fun kv => str_in (fst kv) reserved || oeqb (aget (fst kv) a) (aget (fst kv) (payload C x))) (payload C x))
          (combine (combine (seq 0 (length xs)) xs) (t_nodes T0)) &&
  forallb (edge_agreesb C xs) (t_edges T0) &&
  forallb (fun b => forallb (fun ni => forallb (fun nj =>
             match nth_error xs ni, nth_error xs nj with
             | Some x, Some y => negb (Z.eqb x (cb_u b) && Z.eqb y (cb_v b)) || bond_presentb (t_edges T0) ni nj
             | _, _ => true
             end) (seq 0 (length xs))) (seq 0 (length xs))) (c_bonds C).

Lemma combine3_nth {A B} (xs : list A) (ys : list B) i x y : nth_error xs i = Some x -> nth_error ys i = Some y ->
  In ((i, x), y) (combine (combine (seq 0 (length xs)) xs) ys).
Proof.
  intros Nx Ny. assert (G : forall k (xs : list A) (ys : list B) i, nth_error xs i = Some x -> nth_error ys i = Some y ->
     In ((k + i, x), y) (combine (combine (seq k (length xs)) xs) ys)).
  { clear. intros k xs. revert k. induction xs as [|a r IH]; intros k ys i Nx Ny; [destruct i; discriminate Nx|].
    destruct ys as [|b ys]; [destruct i; discriminate Ny|]. destruct i as [|i]; cbn in *.
    - inversion Nx; inversion Ny; subst. left. rewrite Nat.add_0_r. reflexivity.
    - right. replace (k + Datatypes.S i) with (Datatypes.S k + i) by lia. apply IH; assumption. }
  apply (G 0). exact Nx. exact Ny.
Qed.
Lemma cut_agreesb_sound C xs T0 d : cut_agreesb C xs T0 d = true -> cut_agrees C xs T0 d.
Proof.
  unfold cut_agreesb. intros H. repeat (apply andb_prop in H; destruct H as [H ?H]).
  rewrite forallb_forall in *. apply Nat.eqb_eq in H. constructor.
  - exact H.
  - intros i x N. specialize (H3 _ (combine_seq_nth xs 0 i x N)). cbn [fst snd Nat.add] in H3. apply oeqb_sound. exact H3.
  - intros i x a Nx Na. specialize (H2 _ (combine3_nth xs (t_nodes T0) i x a Nx Na)). cbn [fst snd] in H2.
    apply andb_prop in H2. destruct H2 as [A P]. split; [apply oeqb_sound; exact A|].
    intros key v Hv Hr. rewrite forallb_forall in P. specialize (P _ (aget_in _ _ _ Hv)). cbn [fst] in P.
    apply orb_prop in P. destruct P as [R|E]; [exfalso; apply Hr; apply CutBonding.str_in_In; exact R|].
    apply oeqb_sound in E. congruence.
  - intros u v o IN. specialize (H1 _ IN). cbn in H1.
    destruct (nth_error xs u) as [x|]; [|discriminate H1]. destruct (nth_error xs v) as [y|]; [|discriminate H1].
    destruct (find_bond C x y) as [b|] eqn:Eb; [|discriminate H1]. apply find_some in Eb. destruct Eb as [Ib J].
    exists x, y, b. repeat split; auto. apply pyval_eqb_sound. exact H1.
  - intros b ni nj Ib Nu Nv. specialize (H0 b Ib). rewrite forallb_forall in H0.
    assert (I1 : In ni (seq 0 (length xs))) by (apply in_seq; split; [lia|]; apply nth_error_Some; congruence).
    assert (I2 : In nj (seq 0 (length xs))) by (apply in_seq; split; [lia|]; apply nth_error_Some; congruence).
    specialize (H0 ni I1). rewrite forallb_forall in H0. specialize (H0 nj I2). rewrite Nu, Nv, !Z.eqb_refl in H0. cbn in H0.
    unfold bond_presentb in H0. apply existsb_exists in H0. destruct H0 as [[[u v] o] [IN Q]]. exists o.
    apply orb_prop in Q. destruct Q as [Q|Q]; apply andb_prop in Q; destruct Q as [Q1 Q2];
      apply Nat.eqb_eq in Q1; apply Nat.eqb_eq in Q2; subst; auto.
Qed.

(** everything checked by computation *)
Definition part_okb (fo : float_oracle) (C : cut) (name : pystr) (xs : list Z) (toks : list tok) (dc : decor) : bool :=
  wf toks dc && negb (excluded toks dc) && wf_smiles toks &&
  match strip_spec fo toks dc with
  | Ok (_, d, ez, ann) =>
      match graph_of false toks with
      | Ok G => match final_assemble name G d ez ann with
                | Ok T0 => plainb G ann && cut_agreesb C xs T0 d
                | Err _ => false
                end
      | Err _ => false
      end
  | Err _ => false
  end.
Theorem template_is_template_b fo C name xs toks dc : part_okb fo C name xs toks dc = true ->
  exists T0, fragment_template_final fo name (render (decorate toks dc)) = Ok T0 /\ is_template C name xs (tmpl_graph T0).
Proof.
  unfold part_okb. intros H. apply andb_prop in H. destruct H as [H H4]. apply andb_prop in H. destruct H as [H H3].
  apply andb_prop in H. destruct H as [H1 H2]. apply negb_true_iff in H2.
  destruct (strip_spec fo toks dc) as [[[[clean d] ez] ann]|x] eqn:ES; [|discriminate H4].
  destruct (graph_of false toks) as [G|x] eqn:EG; [|discriminate H4].
  destruct (final_assemble name G d ez ann) as [T0|x] eqn:EA; [|discriminate H4].
  apply andb_prop in H4. destruct H4 as [P A]. exists T0.
  apply (template_is_template fo C name xs toks dc clean d ez ann G T0 H1 H2 H3 ES EG EA (plainb_sound _ _ P) (cut_agreesb_sound _ _ _ _ A)).
Qed.

(** non-vacuity: acetic acid cut into CC(=O)[$] and [$]O *)
Local Open Scope Z_scope.
Definition ex_attrs (el : string) : attrs := [(S "element", VStr (S el)); (S "charge", VInt 0); (S "aromatic", VBool false)].
Definition ex_cut : cut :=
  {| c_atoms := [(10, ex_attrs "C"); (11, ex_attrs "C"); (12, ex_attrs "O"); (13, ex_attrs "O")];
     c_bonds := [ {| cb_u := 10; cb_v := 11; cb_ord := VInt 1; cb_lab := []; cb_dollar := true |};
                  {| cb_u := 11; cb_v := 12; cb_ord := VInt 2; cb_lab := []; cb_dollar := true |};
                  {| cb_u := 11; cb_v := 13; cb_ord := VInt 1; cb_lab := []; cb_dollar := true |} ];
     c_parts := [(S "A", [10; 11; 12]); (S "B", [13])];
     c_dord := [] |}.
Definition ex_dollar : desc := {| d_kind := "$"%char; d_label := []; d_sym := None |}.
Definition ex_toks_a := [TAtom (S "C"); TAtom (S "C"); TOpen; TBond BDouble; TAtom (S "O"); TClose].
Definition ex_dc_a := {| d_lead := []; d_after := [[]; []; []; []; []; [ex_dollar]] |}.
Definition ex_toks_b := [TAtom (S "O")].
Definition ex_dc_b := {| d_lead := [ex_dollar]; d_after := [[]] |}.
Lemma template_example_cut :
  wf_cutb ex_cut = true /\
  to_string (render (decorate ex_toks_a ex_dc_a)) = "CC(=O)[$]"%string /\ to_string (render (decorate ex_toks_b ex_dc_b)) = "[$]O"%string /\
  part_okb (fo_of_table []) ex_cut (S "A") [10; 11; 12] ex_toks_a ex_dc_a = true /\
  part_okb (fo_of_table []) ex_cut (S "B") [13] ex_toks_b ex_dc_b = true /\
  (exists T0, fragment_template_final (fo_of_table []) (S "A") (S "CC(=O)[$]") = Ok T0 /\
     is_templateb ex_cut (S "A") [10; 11; 12] (tmpl_graph T0) = true /\
     map (aget (S "hcount")) (t_nodes T0) = [Some (VInt 3); Some (VInt 1); Some (VInt 0)]).
Proof.
  split; [vm_compute; reflexivity|]. split; [vm_compute; reflexivity|]. split; [vm_compute; reflexivity|].
  split; [vm_compute; reflexivity|]. split; [vm_compute; reflexivity|].
  eexists. split; [vm_compute; reflexivity|]. split; vm_compute; reflexivity.
Qed.
