(** TemplateGraph: the template of TemplateFinal.v as a networkx graph ([Base.NxGraph.graph]: nodes
    0..n-1 in order, adjacency of a node = its bonds in creation order), and what G.edges enumerates
    on it: every bond once, from its smaller end ([edges_data_tmpl]); the bonds of a token graph
    are simple (no self bond, no two bonds between the same atoms) and inside the node range. *)
From Coq Require Import String.
From Coq Require Import List Ascii ZArith Bool Lia Permutation.
From CGV Require Import Base.PyBase Base.PyVal Base.NxGraph Frag.NDict Frag.FragText Frag.SmilesParse Frag.SmilesSpec
     Frag.SmilesPerm Frag.Template.
Import ListNotations.
Local Open Scope nat_scope.

Notation vedge3 := (nat * nat * pyval)%type.
Definition eattrs (o : pyval) : attrs := [(S "order", o)].
Definition adj_of (i : nat) (E : list vedge3) : list (Z * attrs) :=
  flat_map (fun e => let '(u, v, o) := e in
                     if Nat.eqb u i then [(Z.of_nat v, eattrs o)] else if Nat.eqb v i then [(Z.of_nat u, eattrs o)] else []) E.
Definition mknode (E : list vedge3) (ia : nat * attrs) : nrec :=
  {| nk := Z.of_nat (fst ia); na := snd ia; nadj := adj_of (fst ia) E |}.
Definition tmpl_graph (T : tmpl) : graph :=
  map (mknode (t_edges T)) (combine (seq 0 (length (t_nodes T))) (t_nodes T)).

(** what G.edges yields at node i: the bonds to later nodes *)
Definition row (E : list vedge3) (i : nat) : list vedge3 :=
  flat_map (fun e => let '(u, v, o) := e in
                     if Nat.eqb u i && Nat.ltb i v then [(i, v, o)]
                     else if Nat.eqb v i && Nat.ltb i u then [(i, u, o)] else []) E.
Definition toZ3 (e : vedge3) : Z * Z * attrs := let '(u, v, o) := e in (Z.of_nat u, Z.of_nat v, eattrs o).
Definition irrefl (E : list vedge3) : Prop := forall u v o, In (u, v, o) E -> u <> v.

Lemma seen_row (E : list vedge3) i seen : irrefl E ->
  (forall w, existsb (Z.eqb (Z.of_nat w)) seen = Nat.ltb w i) ->
  flat_map (fun wa : Z * attrs => if existsb (Z.eqb (fst wa)) seen then [] else [(Z.of_nat i, fst wa, snd wa)]) (adj_of i E)
  = map toZ3 (row E i).
Proof.
  intros IR S. unfold adj_of, row. induction E as [|[[u v] o] r IH]; [reflexivity|].
  assert (IR' : irrefl r) by (intros a b c IN; apply (IR a b c); right; exact IN).
  cbn [flat_map]. rewrite flat_map_app, map_app, (IH IR'). f_equal.
  pose proof (IR u v o (or_introl eq_refl)) as NE.
  destruct (Nat.eqb_spec u i) as [->|N1].
  - cbn [flat_map app fst snd]. rewrite S. destruct (Nat.ltb_spec v i) as [L|L]; cbn [andb].
    + destruct (Nat.ltb_spec i v); [lia|]. destruct (Nat.eqb_spec v i); [lia|]. reflexivity.
    + destruct (Nat.ltb_spec i v); [|lia]. reflexivity.
  - cbn [andb]. destruct (Nat.eqb_spec v i) as [->|N2]; [|reflexivity].
    cbn [flat_map app fst snd andb]. rewrite S. destruct (Nat.ltb_spec u i) as [L|L].
    + destruct (Nat.ltb_spec i u); [lia|]. reflexivity.
    + destruct (Nat.ltb_spec i u); [|lia]. reflexivity.
Qed.
Lemma edges_from_tmpl (E : list vedge3) : irrefl E -> forall (nodes : list attrs) k seen,
  (forall w, existsb (Z.eqb (Z.of_nat w)) seen = Nat.ltb w k) ->
  edges_from (map (mknode E) (combine (seq k (length nodes)) nodes)) seen
  = map toZ3 (flat_map (row E) (seq k (length nodes))).
Proof.
  intros IR. induction nodes as [|a r IH]; intros k seen S; [reflexivity|].
  cbn [length seq combine map edges_from flat_map mknode nk nadj fst snd]. rewrite map_app. f_equal.
  - apply seen_row; assumption.
  - apply IH. intros w. cbn [existsb]. rewrite S.
    destruct (Z.eqb_spec (Z.of_nat w) (Z.of_nat k)) as [Q|Q].
    + apply Nat2Z.inj in Q. subst. destruct (Nat.ltb_spec k (Datatypes.S k)); [reflexivity|lia].
    + assert (w <> k) by (intros ->; apply Q; reflexivity).
      destruct (Nat.ltb_spec w k), (Nat.ltb_spec w (Datatypes.S k)); try reflexivity; lia.
Qed.
Definition elist (n : nat) (E : list vedge3) : list vedge3 := flat_map (row E) (seq 0 n).
Theorem edges_data_tmpl T : irrefl (t_edges T) ->
  edges_data (tmpl_graph T) = map toZ3 (elist (length (t_nodes T)) (t_edges T)).
Proof. intros IR. unfold edges_data, tmpl_graph, elist. apply edges_from_tmpl; [exact IR|]. intros w. reflexivity. Qed.

(** each bond is listed once: membership in [elist] *)
Lemma in_row E i a b o : In (a, b, o) (row E i) <->
  a = i /\ i < b /\ (In (i, b, o) E \/ In (b, i, o) E).
Proof.
  unfold row. rewrite in_flat_map. split.
  - intros [[[u v] o'] [IN H]].
    destruct (Nat.eqb u i) eqn:E1, (Nat.ltb i v) eqn:E2, (Nat.eqb v i) eqn:E3, (Nat.ltb i u) eqn:E4; cbn in H;
      try contradiction; destruct H as [H|[]]; inversion H; subst;
      try apply Nat.eqb_eq in E1; try apply Nat.eqb_eq in E3; try apply Nat.ltb_lt in E2; try apply Nat.ltb_lt in E4;
      subst; auto.
  - intros [-> [L [IN|IN]]].
    + exists (i, b, o). split; [exact IN|]. rewrite Nat.eqb_refl. destruct (Nat.ltb_spec i b); [left; reflexivity|lia].
    + exists (b, i, o). split; [exact IN|]. destruct (Nat.eqb_spec b i); [lia|]. cbn [andb]. rewrite Nat.eqb_refl.
      destruct (Nat.ltb_spec i b); [left; reflexivity|lia].
Qed.
Lemma in_elist n E a b o : In (a, b, o) (elist n E) <-> a < n /\ a < b /\ (In (a, b, o) E \/ In (b, a, o) E).
Proof.
  unfold elist. rewrite in_flat_map. split.
  - intros [i [I H]]. apply in_seq in I. apply in_row in H. destruct H as [-> [L H]]. split; [lia|]. auto.
  - intros [A [L H]]. exists a. split; [apply in_seq; lia|]. apply in_row. auto.
Qed.

(** simple bond lists *)
Definition same_ends3 (e e' : vedge3) : Prop :=
  let '(u, v, _) := e in let '(u', v', _) := e' in (u = u' /\ v = v') \/ (u = v' /\ v = u').
Definition simple (E : list vedge3) : Prop := irrefl E /\ ForallOrdPairs (fun e e' => ~ same_ends3 e e') E.
Definition p2 (e : vedge3) : nat * nat := (fst (fst e), snd (fst e)).

Lemma NoDup_app_disj {A} (l1 l2 : list A) : NoDup l1 -> NoDup l2 -> (forall x, In x l1 -> ~ In x l2) -> NoDup (l1 ++ l2).
Proof.
  induction l1 as [|a l1 IH]; intros N1 N2 D; [exact N2|]. inversion N1; subst. cbn. constructor.
  - intros IN. apply in_app_or in IN. destruct IN as [IN|IN]; [contradiction|]. apply (D a (or_introl eq_refl) IN).
  - apply IH; auto. intros x IN. apply D. right. exact IN.
Qed.
Lemma row_nodup E i : simple E -> NoDup (map p2 (row E i)).
Proof.
  intros [IR FP]. induction E as [|[[u v] o] r IH]; [constructor|].
  inversion FP as [|? ? HF FP']; subst.
  assert (IR' : irrefl r) by (intros a b c IN; apply (IR a b c); right; exact IN).
  specialize (IH IR' FP').
  change (row ((u, v, o) :: r) i) with
    ((if Nat.eqb u i && Nat.ltb i v then [(i, v, o)] else if Nat.eqb v i && Nat.ltb i u then [(i, u, o)] else []) ++ row r i).
  rewrite map_app. apply NoDup_app_disj; [| exact IH |].
  - destruct (Nat.eqb u i && Nat.ltb i v); [repeat constructor; intros []|].
    destruct (Nat.eqb v i && Nat.ltb i u); repeat constructor; intros [].
  - intros [a b] IN1 IN2. apply in_map_iff in IN2. destruct IN2 as [[[a' b'] o'] [Q IN2]]. cbn in Q. inversion Q; subst a' b'.
    apply in_row in IN2. destruct IN2 as [-> [L IN2]].
    rewrite Forall_forall in HF.
    assert (SE : forall w, (In (i, w, o') r \/ In (w, i, o') r) -> ((u = i /\ v = w) \/ (u = w /\ v = i)) -> False).
    { intros w [X|X] Y; apply (HF _ X); cbn; tauto. }
    destruct (Nat.eqb u i) eqn:E1, (Nat.ltb i v) eqn:E2, (Nat.eqb v i) eqn:E3, (Nat.ltb i u) eqn:E4; cbn in IN1;
      try contradiction; destruct IN1 as [H|[]]; inversion H; subst;
      try apply Nat.eqb_eq in E1; try apply Nat.eqb_eq in E3; subst; apply (SE _ IN2); auto.
Qed.
Lemma elist_nodup E : simple E -> forall is_, NoDup is_ -> NoDup (map p2 (flat_map (row E) is_)).
Proof.
  intros S. induction is_ as [|i r IH]; intros N; [constructor|]. inversion N; subst. cbn [flat_map]. rewrite map_app.
  apply NoDup_app_disj; [apply row_nodup; exact S|apply IH; assumption|].
  intros [a b] IN1 IN2. apply in_map_iff in IN1. destruct IN1 as [[[a1 b1] o1] [Q1 IN1]]. cbn in Q1. inversion Q1; subst.
  apply in_row in IN1. destruct IN1 as [-> _].
  apply in_map_iff in IN2. destruct IN2 as [[[a2 b2] o2] [Q2 IN2]]. cbn in Q2. inversion Q2; subst.
  apply in_flat_map in IN2. destruct IN2 as [j [J IN2]]. apply in_row in IN2. destruct IN2 as [-> _]. contradiction.
Qed.

(** from a duplicate-free list of increasing pairs to networkx' "each undirected edge once" *)
Lemma fop_of_nodup (l : list (nat * nat)) : NoDup l -> (forall e, In e l -> fst e < snd e) ->
  ForallOrdPairs (fun e e' : Z * Z => ~ ((fst e = fst e' /\ snd e = snd e') \/ (fst e = snd e' /\ snd e = fst e')))
                 (map (fun e => (Z.of_nat (fst e), Z.of_nat (snd e))) l).
Proof.
  induction l as [|[a b] r IH]; intros N O; [constructor|]. inversion N; subst. cbn [map]. constructor.
  - apply Forall_forall. intros [x y] IN. apply in_map_iff in IN. destruct IN as [[a' b'] [Q IN]]. cbn in Q. inversion Q; subst.
    pose proof (O (a, b) (or_introl eq_refl)) as O1. pose proof (O (a', b') (or_intror IN)) as O2. cbn in *.
    intros [[E1 E2]|[E1 E2]]; apply Nat2Z.inj in E1; apply Nat2Z.inj in E2; subst; [contradiction|lia].
  - apply IH; [assumption|]. intros e IN. apply O. right. exact IN.
Qed.
Theorem edges_list_tmpl_once T : simple (t_edges T) ->
  ForallOrdPairs (fun e e' : Z * Z => ~ ((fst e = fst e' /\ snd e = snd e') \/ (fst e = snd e' /\ snd e = fst e')))
                 (edges_list (tmpl_graph T)).
Proof.
  intros S. unfold edges_list. rewrite (edges_data_tmpl T (proj1 S)). rewrite map_map.
  replace (map (fun x : vedge3 => (fst (fst (toZ3 x)), snd (fst (toZ3 x)))) (elist (length (t_nodes T)) (t_edges T)))
    with (map (fun e => (Z.of_nat (fst e), Z.of_nat (snd e))) (map p2 (elist (length (t_nodes T)) (t_edges T)))).
  - apply fop_of_nodup.
    + apply elist_nodup; [exact S|apply seq_NoDup].
    + intros [a b] IN. apply in_map_iff in IN. destruct IN as [[[a' b'] o] [Q IN]]. cbn in Q. inversion Q; subst.
      apply in_elist in IN. cbn. lia.
  - rewrite map_map. apply map_ext. intros [[u v] o]. reflexivity.
Qed.

(** the bonds of a token graph are simple and inside the node range *)
Definition sameP (p q : nat * nat) : Prop := (fst p = fst q /\ snd p = snd q) \/ (fst p = snd q /\ snd p = fst q).
Definition pairs_simple (P : list (nat * nat)) : Prop :=
  (forall u v, In (u, v) P -> u <> v) /\ ForallOrdPairs (fun p q => ~ sameP p q) P.
Definition pb (e : nat * nat * bondstr) : nat * nat := (fst (fst e), snd (fst e)).
Lemma fop_snoc {A} (R : A -> A -> Prop) l e : ForallOrdPairs R l -> Forall (fun x => R x e) l -> ForallOrdPairs R (l ++ [e]).
Proof.
  induction l as [|a l IH]; intros F H; cbn; [repeat constructor|].
  inversion F; subst. inversion H; subst. constructor.
  - apply Forall_app. split; [assumption|repeat constructor; assumption].
  - apply IH; assumption.
Qed.
Lemma has_edge_false a j (E : list (nat * nat * bondstr)) : SmilesParse.has_edge a j E = false ->
  Forall (fun p => ~ sameP p (a, j)) (map pb E).
Proof.
  unfold SmilesParse.has_edge. induction E as [|[[u v] b] r IH]; cbn; [constructor|].
  intros H. apply orb_false_elim in H. destruct H as [H1 H2]. constructor; [|apply IH; exact H2].
  apply orb_false_elim in H1. destruct H1 as [X Y]. unfold sameP. cbn. intros [[-> ->]|[-> ->]].
  - rewrite !Nat.eqb_refl in X. cbn in X. discriminate X.
  - rewrite !Nat.eqb_refl in Y. cbn in Y. discriminate Y.
Qed.
Lemma gstep_simple ks g t g1 : GInv g -> pairs_simple (map pb (q_edges g)) -> gstep ks g t = Ok g1 ->
  pairs_simple (map pb (q_edges g1)).
Proof.
  intros GI [IR FP] H.
  assert (ATOM : forall text, pairs_simple (map pb (q_edges (add_atom g text)))).
  { intros text. unfold add_atom. cbn. destruct (q_cur g) as [a|] eqn:Ec; [|split; assumption].
    pose proof (gi_cur g GI a Ec) as AL. rewrite map_app. cbn. split.
    - intros u v IN. apply in_app_or in IN. destruct IN as [IN|[IN|[]]]; [apply IR; exact IN|]. inversion IN; subst. lia.
    - apply fop_snoc; [exact FP|]. apply Forall_forall. intros [u v] IN. apply in_map_iff in IN.
      destruct IN as [[[u' v'] b] [Q IN]]. cbn in Q. inversion Q; subst.
      destruct (gi_edges g GI u v b IN) as [U V]. unfold sameP. cbn. lia. }
  destruct t as [e|body annot|b| | |b m|fw|n]; cbn [gstep] in H; try (inversion H; subst g1; first [apply ATOM | cbn; split; assumption]).
  - unfold add_ring in H. destruct (q_cur g) as [a|]; [|discriminate H].
    destruct (ring_get (marker_val m) (q_open g)) as [[j o]|].
    + destruct (merge_bond (option_map bchar b) o); cbn in H; [|discriminate H].
      destruct (SmilesParse.has_edge a j (q_edges g)) eqn:HE; [discriminate H|].
      destruct (Nat.eqb_spec a j) as [|NE]; [discriminate H|]. inversion H; subst g1; clear H. cbn. rewrite map_app. cbn. split.
      * intros u v IN. apply in_app_or in IN. destruct IN as [IN|[IN|[]]]; [apply IR; exact IN|]. inversion IN; subst. exact NE.
      * apply fop_snoc; [exact FP|]. apply has_edge_false. exact HE.
    + inversion H; subst g1. cbn. split; assumption.
  - destruct ks; inversion H; subst g1; cbn; split; assumption.
Qed.
Lemma grun_simple ks : forall toks g g1, GInv g -> pairs_simple (map pb (q_edges g)) -> grun ks g toks = Ok g1 ->
  pairs_simple (map pb (q_edges g1)) /\ GInv g1.
Proof.
  induction toks as [|t r IH]; intros g g1 GI PS H; cbn in H; [inversion H; subst; auto|].
  destruct (gstep ks g t) as [g'|e] eqn:Eg; cbn in H; [|discriminate H].
  apply (IH g' g1); [apply (gstep_ginv ks g t g' GI Eg)|apply (gstep_simple ks g t g' GI PS Eg)|exact H].
Qed.

(** through [interpret]: the orders replace the symbols, the ends stay *)
Lemma map_res_edge_order_ends nodes : forall E es, map_res (edge_order nodes) E = Ok es -> map p2 es = map pb E.
Proof.
  induction E as [|[[u v] b] r IH]; intros es H; cbn [map_res] in H; [inversion H; reflexivity|].
  destruct (edge_order nodes (u, v, b)) as [[[u' v'] o]|x] eqn:Eo; cbn [bind] in H; [|discriminate H].
  destruct (map_res (edge_order nodes) r) as [ys|x]; cbn [bind] in H; [|discriminate H]. inversion H; subst es. cbn [map].
  rewrite (IH ys eq_refl). f_equal.
  unfold edge_order in Eo. destruct b as [c|].
  - destruct (Gen.SmilesGen.smiles_bond_to_order_lookup [c]); cbn in Eo; inversion Eo; reflexivity.
  - destruct (node_aromatic nodes u && node_aromatic nodes v); inversion Eo; reflexivity.
Qed.
Lemma simple_of_pairs (E : list vedge3) : pairs_simple (map p2 E) -> simple E.
Proof.
  intros [IR FP]. split.
  - intros u v o IN. apply IR. apply in_map_iff. exists (u, v, o). split; [reflexivity|exact IN].
  - clear IR. induction E as [|[[u v] o] r IH]; [constructor|]. cbn in FP. inversion FP; subst. constructor; [|apply IH; assumption].
    rewrite Forall_forall in *. intros [[u' v'] o'] IN. specialize (H1 (u', v') (in_map p2 _ _ IN)). exact H1.
Qed.
Theorem graph_of_simple ks toks G : graph_of ks toks = Ok G ->
  simple (g_edges G) /\ (forall u v o, In (u, v, o) (g_edges G) -> u < length (g_nodes G) /\ v < length (g_nodes G)).
Proof.
  unfold graph_of, graph_base. destruct (grun ks ginit toks) as [g|x] eqn:Eg; cbn [bind]; [|discriminate].
  unfold interpret. destruct (map_res parse_atom (q_atoms g)) as [nodes|x] eqn:En; cbn [bind]; [|discriminate].
  destruct (map_res (edge_order nodes) (q_edges g)) as [es|x] eqn:Ee; cbn [bind]; [|discriminate].
  intros H. inversion H; subst G; clear H. cbn.
  assert (PS0 : pairs_simple (map pb (q_edges ginit))) by (split; [intros u v []|constructor]).
  destruct (grun_simple ks toks ginit g ginit_inv PS0 Eg) as [PS GI].
  pose proof (map_res_edge_order_ends nodes _ _ Ee) as ME.
  split; [apply simple_of_pairs; rewrite ME; exact PS|].
  intros u v o IN. assert (IN' : In (u, v) (map pb (q_edges g))) by (rewrite <- ME; apply (in_map p2 _ _ IN)).
  apply in_map_iff in IN'. destruct IN' as [[[u' v'] b] [Q IN']]. cbn in Q. inversion Q; subst.
  destruct (gi_edges g GI u v b IN') as [U V].
  destruct (map_res_ok _ _ _ En) as [LN _]. rewrite LN, (gi_len g GI). auto.
Qed.
