(** SmilesReroot: start-atom choice for BRANCHED fragments (text level of C01).  Part 1: the
    permutation simulation of SmilesPerm for UNDIRECTED bonds ([PSimU]: the bond lists agree as
    multisets after renaming and ordering the two ends, [canon]); valid along any continuation.
    Part 2: the re-rooting step along one bond.  A text  a P [b] x R  (first atom a, its branches P
    = a sequence of parenthesised groups, the bond to the next atom x, the rest R) and the text
     x ( [b] a P ) R  written from the neighbour x denote the same graph up to the rotation [rot]
    (a: 0 -> 1, atoms of P: i -> i+1, x: m -> 0, atoms of R fixed) with the bond a-x turned round.
    P and R may contain ring-bond markers (also ring bonds from P into R).  Part 3: through
    [interpret]; composition; iteration along the main chain ([reroot_n]).
    Everything for [ks = false] (the clean text of strip_bonding_descriptors has no slash marks). *)
From Coq Require Import String.
From Coq Require Import List Ascii ZArith Bool Lia Permutation.
From CGV Require Import Base.PyBase Base.PyVal Gen.SmilesGen Frag.NDict Frag.FragText Frag.SmilesParse Frag.SmilesSpec
     Frag.SmilesProofs Frag.SmilesPerm Frag.SmilesReverse.
Import ListNotations.

(** * Part 1: simulation under a permutation, bonds undirected *)
Definition canon (e : edge) : edge := let '(u, v, b) := e in if v <? u then (v, u, b) else (u, v, b).
Definition canonv (e : vedge) : vedge := let '(u, v, o) := e in if v <? u then (v, u, o) else (u, v, o).

Record PSimU (s : nat -> nat) (g h : gst) : Prop := {
  pu_n : q_n h = q_n g;
  pu_leng : length (q_atoms g) = q_n g;
  pu_lenh : length (q_atoms h) = q_n h;
  pu_atoms : forall i, i < q_n g -> nth_error (q_atoms h) (s i) = nth_error (q_atoms g) i;
  pu_edges : Permutation (map canon (map (emap s) (q_edges g))) (map canon (q_edges h));
  pu_cur : q_cur h = option_map s (q_cur g);
  pu_stack : q_stack h = map s (q_stack g);
  pu_open : q_open h = omap s (q_open g);
  pu_pend : q_pend h = q_pend g;
  pu_ez : q_ez h = q_ez g }.

Lemma psim_psimu s g h : PSim s g h -> PSimU s g h.
Proof. intros [N LG LH A E C K O P Z]. constructor; auto. apply Permutation_map. exact E. Qed.

Lemma has_edge_canon a j (E : list edge) : has_edge a j (map canon E) = has_edge a j E.
Proof.
  unfold has_edge. induction E as [|[[u v] b] r IH]; cbn [map existsb]; [reflexivity|]. rewrite IH. f_equal.
  unfold canon. destruct (v <? u); [|reflexivity].
  rewrite orb_comm. f_equal; apply andb_comm.
Qed.

Lemma gstep_psimu s g h t : sigma_ok s (q_n g) -> PSimU s g h ->
  match gstep false g t, gstep false h t with
  | Ok g1, Ok h1 => PSimU s g1 h1 /\ sigma_ok s (q_n g1)
  | Err e, Err e' => e = e'
  | _, _ => False
  end.
Proof.
  intros SO [N LG LH A E C K O P Z]. destruct SO as [I [B F]].
  assert (SO : sigma_ok s (q_n g)) by (split; [exact I|split; assumption]).
  destruct t as [e|body annot|b| | |b m|fw|n]; cbn [gstep].
  1,2: (split; [|apply sigma_ok_S; exact SO]); constructor; cbn;
    [ congruence | rewrite app_length; cbn; lia | rewrite app_length; cbn; lia
    | intros i L; destruct (Nat.eq_dec i (q_n g)) as [->|NE];
      [ rewrite F by lia; rewrite nth_error_app2 by lia; rewrite nth_error_app2 by lia;
        replace (q_n g - length (q_atoms h)) with 0 by lia; replace (q_n g - length (q_atoms g)) with 0 by lia; reflexivity
      | assert (L' : i < q_n g) by lia; pose proof (B i L');
        rewrite nth_error_app1 by lia; rewrite nth_error_app1 by lia; apply A; exact L' ]
    | rewrite C; destruct (q_cur g) as [a|]; cbn; [|exact E];
      rewrite !map_app; cbn [map emap]; rewrite N, P, (F (q_n g)) by lia; apply Permutation_app; [exact E|reflexivity]
    | rewrite N, F by lia; reflexivity | assumption | assumption | reflexivity | assumption ].
  - split; [|exact SO]. constructor; cbn; auto.
  - split; [|exact SO]. constructor; cbn; auto. rewrite C, K. destruct (q_cur g); reflexivity.
  - split; [|exact SO]. constructor; cbn; auto.
    + rewrite K, C. destruct (q_stack g); reflexivity.
    + rewrite K. destruct (q_stack g); reflexivity.
  - unfold add_ring. rewrite C. destruct (q_cur g) as [a|]; cbn [option_map]; [|reflexivity].
    rewrite O, ring_get_omap. destruct (ring_get (marker_val m) (q_open g)) as [[j o]|]; cbn [option_map fst snd].
    + destruct (merge_bond (option_map bchar b) o) as [nb|err]; cbn [bind]; [|reflexivity].
      rewrite <- (has_edge_canon (s a) (s j) (q_edges h)), <- (has_edge_perm _ _ _ _ E), has_edge_canon, has_edge_map by exact I.
      destruct (has_edge a j (q_edges g)); [reflexivity|].
      assert (Q : Nat.eqb (s a) (s j) = Nat.eqb a j).
      { destruct (Nat.eqb_spec a j) as [->|NE]; [apply Nat.eqb_refl|].
        destruct (Nat.eqb_spec (s a) (s j)) as [E1|_]; [exfalso; apply NE, I, E1|reflexivity]. }
      rewrite Q. destruct (Nat.eqb a j); [reflexivity|].
      split; [|exact SO]. constructor; cbn; auto; try (rewrite C; reflexivity); try apply ring_del_omap.
      rewrite !map_app. cbn [map emap]. apply Permutation_app; [exact E|reflexivity].
    + split; [|exact SO]. constructor; cbn; auto; try (rewrite C; reflexivity).
      unfold omap. rewrite map_app. reflexivity.
  - split; [|exact SO]. constructor; assumption.
  - split; [|exact SO]. constructor; assumption.
Qed.
Lemma grun_psimu s : forall toks g h, sigma_ok s (q_n g) -> PSimU s g h ->
  match grun false g toks, grun false h toks with
  | Ok g1, Ok h1 => PSimU s g1 h1 /\ sigma_ok s (q_n g1)
  | Err e, Err e' => e = e'
  | _, _ => False
  end.
Proof.
  induction toks as [|t r IH]; intros g h SO S; cbn [grun]; [split; assumption|].
  pose proof (gstep_psimu s g h t SO S) as H.
  destruct (gstep false g t) as [g1|e], (gstep false h t) as [h1|e']; cbn [bind]; try contradiction; [|exact H].
  destruct H as [H1 H2]. apply IH; assumption.
Qed.

(** * Part 2: the re-rooting step *)
(** [h] reads the same tokens as [g], one atom [x] and the bond (0,1,b) ahead, inside one more branch *)
Record RSim (x : pystr) (b : bondstr) (g h : gst) : Prop := {
  rs_n : q_n h = Datatypes.S (q_n g);
  rs_atoms : q_atoms h = x :: q_atoms g;
  rs_edges : q_edges h = (0, 1, b) :: map (emap Datatypes.S) (q_edges g);
  rs_cur : q_cur h = option_map Datatypes.S (q_cur g);
  rs_stack : q_stack h = map Datatypes.S (q_stack g) ++ [0];
  rs_open : q_open h = omap Datatypes.S (q_open g);
  rs_pend : q_pend h = q_pend g;
  rs_ez : q_ez h = q_ez g }.

Lemma gstep_rsim x b g h t : RSim x b g h -> (t = TClose -> q_stack g <> []) ->
  match gstep false g t, gstep false h t with
  | Ok g1, Ok h1 => RSim x b g1 h1
  | Err e, Err e' => e = e'
  | _, _ => False
  end.
Proof.
  intros [N A E C K O P Z] NC.
  destruct t as [e|body annot|bd| | |bd m|fw|n]; cbn [gstep].
  1,2: constructor; cbn; [ congruence | rewrite A; reflexivity
    | rewrite C, E; destruct (q_cur g) as [a|]; cbn; [|reflexivity]; rewrite map_app; cbn; rewrite N, P; reflexivity
    | rewrite N; reflexivity | assumption | assumption | reflexivity | assumption ].
  - constructor; cbn; auto.
  - constructor; cbn; auto. rewrite C, K. destruct (q_cur g); reflexivity.
  - destruct (q_stack g) as [|a st] eqn:Es; [exfalso; apply NC; reflexivity|].
    constructor; cbn; auto; rewrite K; reflexivity.
  - unfold add_ring. rewrite C. destruct (q_cur g) as [a|]; cbn [option_map]; [|reflexivity].
    rewrite O, ring_get_omap. destruct (ring_get (marker_val m) (q_open g)) as [[j o]|]; cbn [option_map fst snd].
    + destruct (merge_bond (option_map bchar bd) o) as [nb|err]; cbn [bind]; [|reflexivity].
      assert (HE : has_edge (Datatypes.S a) (Datatypes.S j) (q_edges h) = has_edge a j (q_edges g)).
      { rewrite E. unfold has_edge. cbn [existsb]. cbn [Nat.eqb andb orb].
        apply (has_edge_map Datatypes.S a j (q_edges g)). intros p q H. injection H. auto. }
      rewrite HE. destruct (has_edge a j (q_edges g)); [reflexivity|].
      cbn [Nat.eqb]. destruct (Nat.eqb a j); [reflexivity|].
      constructor; cbn; auto; try (rewrite C; reflexivity); try apply ring_del_omap.
      rewrite E, map_app. reflexivity.
    + constructor; cbn; auto; try (rewrite C; reflexivity).
      unfold omap. rewrite map_app. reflexivity.
  - constructor; assumption.
  - constructor; assumption.
Qed.

(** a sequence of parenthesised groups: at depth 0 only "(" may be written; no bond symbol pending
    at ")" and at the end *)
Fixpoint blocksb (pend : bool) (depth : nat) (toks : list tok) : bool :=
  match toks with
  | [] => negb pend && Nat.eqb depth 0
  | t :: r =>
      match t with
      | TOpen => blocksb pend (Datatypes.S depth) r
      | TClose => negb pend && match depth with O => false | Datatypes.S d => blocksb false d r end
      | TBond _ => (0 <? depth) && blocksb true depth r
      | TAtom _ | TBracket _ _ | TRing _ _ => (0 <? depth) && blocksb false depth r
      | TSlash _ | TMult _ => (0 <? depth) && blocksb pend depth r
      end
  end.

Record BInv (c : nat) (pend : bool) (depth : nat) (g : gst) : Prop := {
  bi_len : length (q_stack g) = depth;
  bi_cur : exists a, q_cur g = Some a;
  bi_zero : depth = 0 -> q_cur g = Some c;
  bi_last : depth > 0 -> exists st, q_stack g = st ++ [c];
  bi_pend : pend = false -> q_pend g = None }.

Lemma blocks_rsim x b c : forall toks pend depth g h,
  blocksb pend depth toks = true -> RSim x b g h -> BInv c pend depth g ->
  match grun false g toks, grun false h toks with
  | Ok g1, Ok h1 => RSim x b g1 h1 /\ BInv c false 0 g1
  | Err e, Err e' => e = e'
  | _, _ => False
  end.
Proof.
  induction toks as [|t r IH]; intros pend depth g h B RS BI.
  - cbn [blocksb] in B. apply andb_prop in B. destruct B as [B1 B2]. apply Nat.eqb_eq in B2. subst depth.
    destruct pend; [discriminate B1|]. cbn [grun]. split; assumption.
  - cbn [grun].
    assert (NC : t = TClose -> q_stack g <> []).
    { intros ->. cbn [blocksb] in B. apply andb_prop in B. destruct B as [_ B]. destruct depth; [discriminate B|].
      destruct BI as [L _ _ _ _]. destruct (q_stack g); [discriminate L|discriminate]. }
    pose proof (gstep_rsim x b g h t RS NC) as H.
    destruct BI as [L [a Ca] Zr La Pe].
    destruct t as [e|body annot|bd| | |bd m|fw|n]; cbn [blocksb] in B.
    1,2: apply andb_prop in B; destruct B as [D B]; apply Nat.ltb_lt in D; cbn [gstep] in H |- *; cbn [bind];
      apply (IH false depth _ _ B H); constructor; cbn; auto; try (eexists; reflexivity); try (intros; lia).
    + apply andb_prop in B. destruct B as [D B]. apply Nat.ltb_lt in D. cbn [gstep] in H |- *. cbn [bind].
      apply (IH true depth _ _ B H). constructor; cbn; auto; try (eexists; exact Ca); try (intros; lia); try (intros; discriminate).
    + cbn [gstep] in H |- *. cbn [bind]. apply (IH pend (Datatypes.S depth) _ _ B H). constructor; cbn; rewrite ?Ca.
      * cbn. lia.
      * eexists; reflexivity.
      * intros; lia.
      * intros _. destruct depth as [|d].
        -- rewrite Zr in Ca by reflexivity. inversion Ca; subst. destruct (q_stack g); [exists []; reflexivity|discriminate L].
        -- destruct (La ltac:(lia)) as [st Hst]. exists (a :: st). rewrite Hst. reflexivity.
      * exact Pe.
    + apply andb_prop in B. destruct B as [Pn B]. destruct pend; [discriminate Pn|]. destruct depth as [|d]; [discriminate B|].
      cbn [gstep] in H |- *. cbn [bind]. apply (IH false d _ _ B H).
      destruct (La ltac:(lia)) as [st Hst].
      destruct (q_stack g) as [|y rest] eqn:Es; [discriminate L|].
      constructor; cbn.
      * cbn in L. lia.
      * eexists; reflexivity.
      * intros ->. destruct rest; [|discriminate L]. destruct st as [|y' [|y'' st']]; cbn in Hst; inversion Hst; subst; try reflexivity.
      * intros D. destruct st as [|y' st']; cbn in Hst; inversion Hst; subst; [cbn in L; lia|]. exists st'. reflexivity.
      * exact Pe.
    + apply andb_prop in B. destruct B as [D B]. apply Nat.ltb_lt in D.
      destruct (gstep false g (TRing bd m)) as [g1|e1] eqn:Eg, (gstep false h (TRing bd m)) as [h1|e1'] eqn:Eh; cbn [bind];
        try contradiction; [|exact H].
      apply (IH false depth _ _ B H).
      cbn [gstep] in Eg. unfold add_ring in Eg. rewrite Ca in Eg.
      destruct (ring_get (marker_val m) (q_open g)) as [[j o]|].
      * destruct (merge_bond (option_map bchar bd) o); cbn [bind] in Eg; [|discriminate Eg].
        destruct (has_edge a j (q_edges g)); [discriminate Eg|]. destruct (Nat.eqb a j); [discriminate Eg|].
        injection Eg as <-. constructor; cbn; rewrite ?Ca; auto; try (eexists; reflexivity); try (intros; lia).
      * injection Eg as <-. constructor; cbn; rewrite ?Ca; auto; try (eexists; reflexivity); try (intros; lia).
    + apply andb_prop in B. destruct B as [D B]. apply Nat.ltb_lt in D. cbn [gstep] in H |- *. cbn [bind].
      apply (IH pend depth _ _ B H). constructor; auto. eexists; exact Ca.
    + apply andb_prop in B. destruct B as [D B]. apply Nat.ltb_lt in D. cbn [gstep] in H |- *. cbn [bind].
      apply (IH pend depth _ _ B H). constructor; auto. eexists; exact Ca.
Qed.

Lemma gstep_qn ks g t g1 : gstep ks g t = Ok g1 -> q_n g1 = q_n g + count_atoms [t].
Proof.
  destruct t as [e|body annot|bd| | |bd m|fw|n]; cbn [gstep]; unfold count_atoms; cbn [filter length];
    try (intros H; injection H as <-; cbn; lia).
  - unfold add_ring. destruct (q_cur g); [|discriminate]. destruct (ring_get _ _) as [[j o]|].
    + destruct (merge_bond _ _); cbn [bind]; [|discriminate]. destruct (has_edge _ _ _); [discriminate|].
      destruct (Nat.eqb _ _); [discriminate|]. intros H; injection H as <-; cbn; lia.
    + intros H; injection H as <-; cbn; lia.
  - destruct ks; intros H; injection H as <-; cbn; lia.
Qed.
Lemma grun_qn ks : forall toks g g1, grun ks g toks = Ok g1 -> q_n g1 = q_n g + count_atoms toks.
Proof.
  induction toks as [|t r IH]; intros g g1 H; cbn [grun] in H.
  - injection H as <-. unfold count_atoms. cbn. lia.
  - destruct (gstep ks g t) as [g'|e] eqn:Eg; cbn [bind] in H; [|discriminate H].
    rewrite (IH _ _ H), (gstep_qn _ _ _ _ Eg), (count_atoms_cons t r). lia.
Qed.

Definition bond_toks (b : option bsym) : list tok := match b with Some s => [TBond s] | None => [] end.
Definition rot (m i : nat) : nat := if i <? m then Datatypes.S i else if Nat.eqb i m then 0 else i.
Lemma rot_ok m : sigma_ok (rot m) (Datatypes.S m).
Proof.
  unfold sigma_ok, rot. split; [|split].
  - intros x y. destruct (Nat.ltb_spec x m), (Nat.eqb_spec x m), (Nat.ltb_spec y m), (Nat.eqb_spec y m); lia.
  - intros i L. destruct (Nat.ltb_spec i m), (Nat.eqb_spec i m); lia.
  - intros i L. destruct (Nat.ltb_spec i m), (Nat.eqb_spec i m); lia.
Qed.
Lemma rot_lt m i : i < m -> rot m i = Datatypes.S i.
Proof. intros L. unfold rot. destruct (Nat.ltb_spec i m); [reflexivity|lia]. Qed.
Lemma rot_m m : rot m m = 0.
Proof. unfold rot. destruct (Nat.ltb_spec m m); [lia|]. rewrite Nat.eqb_refl. reflexivity. Qed.
(** the inverse *)
Definition rot_inv (m j : nat) : nat := if Nat.eqb j 0 then m else if j <=? m then j - 1 else j.
Lemma rot_inv_ok m n : Datatypes.S m <= n -> sigma_inv (rot m) (rot_inv m) n.
Proof.
  intros MN j J. unfold rot, rot_inv. destruct (Nat.eqb_spec j 0) as [->|J0].
  - split; [lia|]. destruct (Nat.ltb_spec m m); [lia|]. rewrite Nat.eqb_refl. reflexivity.
  - destruct (Nat.leb_spec j m).
    + split; [lia|]. destruct (Nat.ltb_spec (j - 1) m); lia.
    + split; [lia|]. destruct (Nat.ltb_spec j m); [lia|]. destruct (Nat.eqb_spec j m); lia.
Qed.

Definition base_uperm (s : nat -> nat) (n : nat) (b1 b2 : base_obs) : Prop :=
  let '(at1, e1, z1) := b1 in let '(at2, e2, z2) := b2 in
  length at1 = n /\ length at2 = n /\ (forall i, i < n -> nth_error at2 (s i) = nth_error at1 i) /\
  Permutation (map canon (map (emap s) e1)) (map canon e2) /\ z2 = z1.

Lemma atom_step g t : is_atomtok t = true -> gstep false g t = Ok (add_atom g (clean_tok t)).
Proof. destruct t; try discriminate; reflexivity. Qed.
Lemma bond_toks_run g b : grun false g (bond_toks b) =
  Ok match b with
     | Some s => {| q_atoms := q_atoms g; q_edges := q_edges g; q_cur := q_cur g; q_n := q_n g; q_pend := Some (bchar s);
                    q_stack := q_stack g; q_open := q_open g; q_ez := q_ez g |}
     | None => g
     end.
Proof. destruct b; reflexivity. Qed.

(** the states after the two prefixes  a P [b] x  and  x ( [b] a P ) *)
Lemma reroot_prefix a P b x :
  is_atomtok a = true -> is_atomtok x = true -> blocksb false 0 P = true ->
  let m := Datatypes.S (count_atoms P) in
  match grun false ginit (a :: P ++ bond_toks b ++ [x]), grun false ginit (x :: TOpen :: bond_toks b ++ a :: P ++ [TClose]) with
  | Ok g1, Ok h1 => PSimU (rot m) g1 h1 /\ q_n g1 = Datatypes.S m
  | Err e, Err e' => e = e'
  | _, _ => False
  end.
Proof.
  intros Aa Ax BP m.
  set (g0 := add_atom ginit (clean_tok a)).
  set (bs := option_map bchar b).
  set (h0 := {| q_atoms := [clean_tok x; clean_tok a]; q_edges := [(0, 1, bs)]; q_cur := Some 1; q_n := 2; q_pend := None;
                q_stack := [0]; q_open := []; q_ez := [] |}).
  assert (R1 : forall rest, grun false ginit (a :: rest) = grun false g0 rest).
  { intros rest. cbn [grun]. rewrite (atom_step _ _ Aa). reflexivity. }
  assert (R2 : forall rest, grun false ginit (x :: TOpen :: bond_toks b ++ a :: rest) = grun false h0 rest).
  { intros rest. cbn [grun]. rewrite (atom_step _ _ Ax). cbn [bind gstep]. rewrite grun_app, bond_toks_run. cbn [bind grun].
    rewrite (atom_step _ _ Aa). cbn [bind]. unfold h0, bs. destruct b; reflexivity. }
  rewrite R1, R2, !grun_app.
  assert (RS0 : RSim (clean_tok x) bs g0 h0) by (constructor; reflexivity).
  assert (BI0 : BInv 0 false 0 g0).
  { constructor; cbn; auto; try (eexists; reflexivity). intros; lia. }
  pose proof (blocks_rsim (clean_tok x) bs 0 P false 0 g0 h0 BP RS0 BI0) as H.
  destruct (grun false g0 P) as [gP|e] eqn:EgP, (grun false h0 P) as [hP|e'] eqn:EhP; cbn [bind]; try contradiction; [|exact H].
  destruct H as [[N A E C K O Pd Z] [L _ Zr _ Pe]].
  assert (GI : GInv gP).
  { apply (grun_ginv false P g0 gP); [|exact EgP]. apply add_atom_ginv, ginit_inv. }
  assert (M : q_n gP = m) by (rewrite (grun_qn _ _ _ _ EgP); reflexivity).
  assert (C0 : q_cur gP = Some 0) by (apply Zr; reflexivity).
  assert (S0 : q_stack gP = []) by (destruct (q_stack gP); [reflexivity|discriminate L]).
  assert (P0 : q_pend gP = None) by (apply Pe; reflexivity).
  destruct GI as [GL GE GC GK GO].
  assert (SH : forall i, i < m -> rot m i = Datatypes.S i) by (intros; apply rot_lt; assumption).
  assert (G1 : exists g1, grun false gP (bond_toks b ++ [x]) = Ok g1 /\ q_atoms g1 = q_atoms gP ++ [clean_tok x] /\
             q_edges g1 = q_edges gP ++ [(0, m, bs)] /\ q_cur g1 = Some m /\ q_n g1 = Datatypes.S m /\ q_pend g1 = None /\
             q_stack g1 = [] /\ q_open g1 = q_open gP /\ q_ez g1 = q_ez gP).
  { unfold bs. destruct b as [s|]; cbn [bond_toks app grun bind gstep]; rewrite (atom_step _ _ Ax); cbn [bind];
      eexists; (split; [reflexivity|]); unfold add_atom; cbn; rewrite C0, ?P0, M, S0; repeat split; reflexivity. }
  destruct G1 as [g1 [RG [GA1 [GE1 [GC1 [GN1 [GP1 [GS1 [GO1 GZ1]]]]]]]]]. rewrite RG.
  cbn [grun gstep bind]. split; [|exact GN1].
  constructor; cbn [q_n q_atoms q_edges q_cur q_stack q_open q_pend q_ez].
  - lia.
  - rewrite GA1, app_length. cbn. lia.
  - rewrite A. cbn. lia.
  - intros i Li. rewrite A, GA1. rewrite GN1 in Li. destruct (Nat.eq_dec i m) as [->|NE].
    + rewrite rot_m. rewrite nth_error_app2 by lia. replace (m - length (q_atoms gP)) with 0 by lia. reflexivity.
    + rewrite SH by lia. cbn [nth_error]. rewrite nth_error_app1 by lia. reflexivity.
  - rewrite GE1, E, !map_app. cbn [map emap].
    rewrite (map_emap_ext (rot m) Datatypes.S (q_edges gP) m) by (rewrite <- M; try assumption; try (intros; apply rot_lt; lia)).
    rewrite rot_m, (SH 0) by (unfold m; lia). change (canon (1, 0, bs)) with (0, 1, bs). change (canon (0, 1, bs)) with (0, 1, bs).
    apply Permutation_sym. apply Permutation_cons_append.
  - rewrite K, S0, GC1. cbn. rewrite rot_m. reflexivity.
  - rewrite K, S0, GS1. reflexivity.
  - rewrite O, GO1. unfold omap. apply map_ext_in. intros [z [j o]] IN. cbn. rewrite SH; [reflexivity|].
    rewrite <- M. apply (GO z j o IN).
  - rewrite Pd, GP1. exact P0.
  - rewrite Z, GZ1. reflexivity.
Qed.

Definition rr_src (a : tok) (P : list tok) (b : option bsym) (x : tok) (R : list tok) : list tok :=
  a :: P ++ bond_toks b ++ x :: R.
Definition rr_dst (a : tok) (P : list tok) (b : option bsym) (x : tok) (R : list tok) : list tok :=
  x :: TOpen :: bond_toks b ++ a :: P ++ TClose :: R.

Theorem reroot_base a P b x R :
  is_atomtok a = true -> is_atomtok x = true -> blocksb false 0 P = true ->
  let s := rot (Datatypes.S (count_atoms P)) in
  match graph_base false (rr_src a P b x R), graph_base false (rr_dst a P b x R) with
  | Ok b1, Ok b2 => exists n, base_uperm s n b1 b2 /\ sigma_ok s n /\ Datatypes.S (Datatypes.S (count_atoms P)) <= n
  | Err e, Err e' => e = e'
  | _, _ => False
  end.
Proof.
  intros Aa Ax BP s. pose proof (reroot_prefix a P b x Aa Ax BP) as H. cbv zeta in H. fold s in H.
  assert (E1 : rr_src a P b x R = (a :: P ++ bond_toks b ++ [x]) ++ R).
  { unfold rr_src. cbn [app]. rewrite <- !app_assoc. reflexivity. }
  assert (E2 : rr_dst a P b x R = (x :: TOpen :: bond_toks b ++ a :: P ++ [TClose]) ++ R).
  { unfold rr_dst. cbn [app]. rewrite <- !app_assoc. cbn [app]. rewrite <- !app_assoc. reflexivity. }
  rewrite E1, E2. unfold graph_base. rewrite !grun_app.
  destruct (grun false ginit (a :: P ++ bond_toks b ++ [x])) as [g1|e],
           (grun false ginit (x :: TOpen :: bond_toks b ++ a :: P ++ [TClose])) as [h1|e']; cbn [bind]; try contradiction; [|exact H].
  destruct H as [PS N1].
  assert (SO : sigma_ok s (q_n g1)) by (rewrite N1; apply rot_ok).
  pose proof (grun_psimu s R g1 h1 SO PS) as H.
  pose proof (grun_qn false R g1) as QN.
  destruct (grun false g1 R) as [g2|e], (grun false h1 R) as [h2|e']; cbn [bind]; try contradiction; [|exact H].
  destruct H as [[N LG LH A E _ _ _ _ Z] SO1]. exists (q_n g2). split; [|split; [exact SO1|]].
  - unfold base_uperm. repeat split; auto. lia.
  - rewrite (QN g2 eq_refl). lia.
Qed.

(** * Part 3: through [interpret] *)
Definition graph_uperm (s : nat -> nat) (n : nat) (G H : sgraph) : Prop :=
  length (g_nodes G) = n /\ length (g_nodes H) = n /\
  (forall i, i < n -> nth_error (g_nodes H) (s i) = nth_error (g_nodes G) i) /\
  Permutation (map canonv (map (emapv s) (g_edges G))) (map canonv (g_edges H)) /\ g_ez H = g_ez G.
Lemma graph_perm_uperm s n G H : graph_perm s n G H -> graph_uperm s n G H.
Proof. intros [L1 [L2 [A [P Z]]]]. repeat split; auto. apply Permutation_map. exact P. Qed.

Lemma edge_order_canon nodes e :
  edge_order nodes (canon e) = match edge_order nodes e with Ok v => Ok (canonv v) | Err x => Err x end.
Proof.
  destruct e as [[u v] [c|]]; unfold canon, canonv; destruct (v <? u) eqn:Ev; cbn [edge_order].
  - destruct (smiles_bond_to_order_lookup [c]); cbn [bind]; [rewrite Ev|]; reflexivity.
  - destruct (smiles_bond_to_order_lookup [c]); cbn [bind]; [rewrite Ev|]; reflexivity.
  - rewrite (andb_comm (node_aromatic nodes v)). destruct (node_aromatic nodes u && node_aromatic nodes v); rewrite Ev; reflexivity.
  - destruct (node_aromatic nodes u && node_aromatic nodes v); rewrite Ev; reflexivity.
Qed.

Lemma interpret_uperm s t n b1 b2 : base_uperm s n b1 b2 -> sigma_ok s n -> sigma_inv s t n ->
  match interpret b1, interpret b2 with
  | Ok G, Ok H => graph_uperm s n G H
  | Err e, Err e' => e = e'
  | _, _ => False
  end.
Proof.
  destruct b1 as [[at1 e1] z1], b2 as [[at2 e2] z2]. intros [L1 [L2 [A [PE Z]]]] [I [B F]] T. subst z2.
  unfold interpret. pose proof (nodes_perm s t n at1 at2 L1 L2 A T) as NP.
  destruct (map_res parse_atom at1) as [r1|x1], (map_res parse_atom at2) as [r2|x2]; cbn [bind]; try contradiction; [|exact NP].
  destruct NP as [LR1 [LR2 AR]].
  pose proof (map_res_perm (edge_order r2) _ _ PE) as MP.
  rewrite !(map_res_map (edge_order r2) (edge_order r2) canon canonv (edge_order_canon r2)) in MP.
  rewrite (map_res_map (edge_order r1) (edge_order r2) (emap s) (emapv s)
             (fun e => edge_order_perm s n r1 r2 e LR1 LR2 AR F)) in MP.
  destruct (map_res (edge_order r1) e1) as [es1|x1] eqn:E1, (map_res (edge_order r2) e2) as [es2|x2] eqn:E2;
    cbn [bind]; try contradiction.
  - unfold graph_uperm. cbn. repeat split; auto.
  - destruct (map_res_err _ _ _ E1) as [y [_ Ey]]. destruct (map_res_err _ _ _ E2) as [y' [_ Ey']].
    rewrite (edge_order_err _ _ _ Ey), (edge_order_err _ _ _ Ey'). reflexivity.
Qed.

(** the graphs of  a P [b] x R  and  x ( [b] a P ) R  are the same up to the rotation *)
Theorem reroot_step a P b x R :
  is_atomtok a = true -> is_atomtok x = true -> blocksb false 0 P = true ->
  let s := rot (Datatypes.S (count_atoms P)) in
  match graph_of false (rr_src a P b x R), graph_of false (rr_dst a P b x R) with
  | Ok G, Ok H => exists n, graph_uperm s n G H /\ sigma_ok s n
  | Err e, Err e' => e = e'
  | _, _ => False
  end.
Proof.
  intros Aa Ax BP s. pose proof (reroot_base a P b x R Aa Ax BP) as H. cbv zeta in H. fold s in H. unfold graph_of.
  destruct (graph_base false (rr_src a P b x R)) as [b1|e1], (graph_base false (rr_dst a P b x R)) as [b2|e2];
    cbn [bind]; try contradiction; [|exact H].
  destruct H as [n [BP' [SO LE]]].
  pose proof (interpret_uperm s _ n b1 b2 BP' SO (rot_inv_ok _ n LE)) as IP.
  destruct (interpret b1), (interpret b2); try contradiction; [exists n; split; [exact IP|exact SO]|exact IP].
Qed.
Theorem reroot_step_text a P b x R :
  wf_smiles (rr_src a P b x R) = true -> wf_smiles (rr_dst a P b x R) = true ->
  is_atomtok a = true -> is_atomtok x = true -> blocksb false 0 P = true ->
  let s := rot (Datatypes.S (count_atoms P)) in
  match smiles_parse (render_smiles false (rr_src a P b x R)), smiles_parse (render_smiles false (rr_dst a P b x R)) with
  | Ok G, Ok H => exists n, graph_uperm s n G H /\ sigma_ok s n
  | Err e, Err e' => e = e'
  | _, _ => False
  end.
Proof. intros W1 W2. rewrite (render_parse false _ W1), (render_parse false _ W2). apply reroot_step. Qed.

(** * Part 4: composition, iteration along the main chain *)
Definition sigma_comp (s' s : nat -> nat) (i : nat) : nat := s' (s i).
Lemma sigma_ok_comp s s' n : sigma_ok s n -> sigma_ok s' n -> sigma_ok (sigma_comp s' s) n.
Proof.
  intros [I [B F]] [I' [B' F']]. unfold sigma_comp. split; [|split].
  - intros x y H. apply I, I', H.
  - intros i L. apply B', B, L.
  - intros i L. rewrite F by exact L. apply F'. exact L.
Qed.
Lemma canonv_flip u v (o : pyval) : canonv (u, v, o) = canonv (v, u, o).
Proof. unfold canonv. destruct (Nat.ltb_spec v u), (Nat.ltb_spec u v); try reflexivity; try lia. replace u with v by lia. reflexivity. Qed.
Lemma canonv_emapv s e : canonv (emapv s (canonv e)) = canonv (emapv s e).
Proof. destruct e as [[u v] o]. unfold canonv at 2. destruct (v <? u); cbn [emapv]; [apply canonv_flip|reflexivity]. Qed.
Lemma graph_uperm_trans s s' n n' G H K :
  graph_uperm s n G H -> graph_uperm s' n' H K -> n' = n /\ graph_uperm (sigma_comp s' s) n G K.
Proof.
  intros [L1 [L2 [A [P Z]]]] [L1' [L2' [A' [P' Z']]]]. assert (EN : n' = n) by congruence. rewrite EN in *. clear EN. split; [reflexivity|].
  unfold graph_uperm, sigma_comp. repeat split; auto.
  - intros i Li. assert (SI : s i < n).
    { rewrite <- L2. apply nth_error_Some. rewrite (A i Li). apply nth_error_Some. lia. }
    rewrite (A' _ SI). apply A. exact Li.
  - apply (Permutation_map (fun e => canonv (emapv s' e))) in P. rewrite !map_map in P.
    assert (EQ1 : map (fun x => canonv (emapv s' (canonv (emapv s x)))) (g_edges G)
                  = map (fun x => canonv (emapv (fun i => s' (s i)) x)) (g_edges G)).
    { apply map_ext. intros [[u v] o]. rewrite canonv_emapv. reflexivity. }
    assert (EQ2 : map (fun x => canonv (emapv s' (canonv x))) (g_edges H) = map canonv (map (emapv s') (g_edges H))).
    { rewrite map_map. apply map_ext. intros e. apply canonv_emapv. }
    rewrite EQ1, EQ2 in P. rewrite map_map. eapply Permutation_trans; [exact P|exact P'].
  - congruence.
Qed.

(** the related-or-both-fail shape, and its transitivity *)
Definition graphs_rel (s : nat -> nat) (r1 r2 : res sgraph) : Prop :=
  match r1, r2 with
  | Ok G, Ok H => exists n, graph_uperm s n G H /\ sigma_ok s n
  | Err e, Err e' => e = e'
  | _, _ => False
  end.
Lemma graphs_rel_trans s s' r1 r2 r3 : graphs_rel s r1 r2 -> graphs_rel s' r2 r3 -> graphs_rel (sigma_comp s' s) r1 r3.
Proof.
  unfold graphs_rel. destruct r1 as [G|e1], r2 as [H|e2], r3 as [K|e3]; try contradiction; try congruence.
  intros [n [U SO]] [n' [U' SO']]. destruct (graph_uperm_trans _ _ _ _ _ _ _ U U') as [-> UU].
  exists n. split; [exact UU|apply sigma_ok_comp; assumption].
Qed.
Lemma graphs_rel_refl r : graphs_rel (fun i => i) r r.
Proof.
  unfold graphs_rel. destruct r as [G|e]; [|reflexivity]. exists (length (g_nodes G)). split.
  - unfold graph_uperm. repeat split; auto. rewrite map_map. erewrite map_ext; [reflexivity|]. intros [[u v] o]. reflexivity.
  - unfold sigma_ok. repeat split; auto.
Qed.

(** the leading sequence of parenthesised groups of a token list, and what follows *)
Fixpoint take_blocks (depth : nat) (toks : list tok) : list tok * list tok :=
  match toks with
  | [] => ([], [])
  | t :: r =>
      match t, depth with
      | TOpen, _ => let '(p, q) := take_blocks (Datatypes.S depth) r in (t :: p, q)
      | TClose, Datatypes.S d => let '(p, q) := take_blocks d r in (t :: p, q)
      | _, O => ([], toks)
      | _, Datatypes.S _ => let '(p, q) := take_blocks depth r in (t :: p, q)
      end
  end.
Lemma take_blocks_app : forall toks depth p q, take_blocks depth toks = (p, q) -> toks = p ++ q.
Proof.
  induction toks as [|t r IH]; intros depth p q H; cbn [take_blocks] in H; [injection H as <- <-; reflexivity|].
  destruct t, depth as [|d]; try (injection H as <- <-; reflexivity);
    match type of H with (let '(_, _) := take_blocks ?d r in _) = _ =>
      destruct (take_blocks d r) as [p1 q1] eqn:E; injection H as <- <-; cbn [app]; f_equal; apply (IH d); exact E end.
Qed.

(** one step: the first atom of the tail becomes the first atom; [None] when the text has no tail
    (the first atom has no neighbour outside its branches) or is not of the shape a P [b] x R *)
Definition reroot1 (w : list tok) : option (list tok * nat) :=
  match w with
  | a :: rest =>
      let '(P, T) := take_blocks 0 rest in
      if is_atomtok a && blocksb false 0 P then
        match T with
        | TBond b :: x :: R => if is_atomtok x then Some (rr_dst a P (Some b) x R, Datatypes.S (count_atoms P)) else None
        | x :: R => if is_atomtok x then Some (rr_dst a P None x R, Datatypes.S (count_atoms P)) else None
        | [] => None
        end
      else None
  | [] => None
  end.
Lemma reroot1_sound w w' m : reroot1 w = Some (w', m) ->
  graphs_rel (rot m) (graph_of false w) (graph_of false w').
Proof.
  unfold reroot1. destruct w as [|a rest]; [discriminate|].
  destruct (take_blocks 0 rest) as [P T] eqn:ET. pose proof (take_blocks_app _ _ _ _ ET) as ->.
  destruct (is_atomtok a && blocksb false 0 P) eqn:EC; [|discriminate]. apply andb_prop in EC. destruct EC as [Aa BP].
  assert (Q : forall b x R, is_atomtok x = true -> T = bond_toks b ++ x :: R ->
            graphs_rel (rot (Datatypes.S (count_atoms P))) (graph_of false (a :: P ++ T)) (graph_of false (rr_dst a P b x R))).
  { intros b x R Ax ->. apply (reroot_step a P b x R Aa Ax BP). }
  destruct T as [|t T']; [discriminate|].
  destruct t as [e|body annot|bd| | |bd mk|fw|k]; cbn [is_atomtok]; try discriminate.
  - intros H. injection H as <- <-. apply (Q None (TAtom e) T' eq_refl eq_refl).
  - intros H. injection H as <- <-. apply (Q None (TBracket body annot) T' eq_refl eq_refl).
  - destruct T' as [|x R]; [discriminate|]. destruct (is_atomtok x) eqn:Ax; [|discriminate].
    intros H. injection H as <- <-. apply (Q (Some bd) x R Ax eq_refl).
Qed.

(** [k] steps along the main chain: the (k+1)-th atom of the main chain becomes the first atom *)
Fixpoint reroot_n (k : nat) (w : list tok) : option (list tok * (nat -> nat)) :=
  match k with
  | O => Some (w, fun i => i)
  | Datatypes.S k' =>
      match reroot1 w with
      | Some (w1, m) => match reroot_n k' w1 with Some (w2, s) => Some (w2, sigma_comp s (rot m)) | None => None end
      | None => None
      end
  end.
Theorem reroot_n_sound : forall k w w' s, reroot_n k w = Some (w', s) ->
  graphs_rel s (graph_of false w) (graph_of false w').
Proof.
  induction k as [|k IH]; intros w w' s H; cbn [reroot_n] in H.
  - injection H as <- <-. apply graphs_rel_refl.
  - destruct (reroot1 w) as [[w1 m]|] eqn:E1; [|discriminate]. destruct (reroot_n k w1) as [[w2 s2]|] eqn:E2; [|discriminate].
    injection H as <- <-. apply (graphs_rel_trans _ _ _ (graph_of false w1)); [apply reroot1_sound; exact E1|apply IH; exact E2].
Qed.

(** non-vacuity: CC(F)(C=O)N[NH3+], written from its second and from its fifth heavy atom of the main chain *)
Definition rr_w : list tok :=
  [TAtom (S "C"); TAtom (S "C"); TOpen; TAtom (S "F"); TClose; TOpen; TAtom (S "C"); TBond BDouble; TAtom (S "O"); TClose;
   TAtom (S "N"); TBracket (S "NH3+") None].
Lemma reroot_example :
  to_string (render_smiles false rr_w) = "CC(F)(C=O)N[NH3+]"%string /\ wf_smiles rr_w = true /\
  match reroot1 rr_w with
  | Some (w1, m) => m = 1 /\ to_string (render_smiles false w1) = "C(C)(F)(C=O)N[NH3+]"%string /\ wf_smiles w1 = true
  | None => False
  end /\
  match reroot_n 3 rr_w with
  | Some (w3, s) =>
      to_string (render_smiles false w3) = "[NH3+](N(C(C)(F)(C=O)))"%string /\ wf_smiles w3 = true /\
      map s [0; 1; 2; 3; 4; 5; 6] = [3; 2; 4; 5; 6; 1; 0] /\
      exists G H, graph_of false rr_w = Ok G /\ graph_of false w3 = Ok H /\ length (g_nodes G) = 7 /\
        g_edges G = [(0, 1, VInt 1); (1, 2, VInt 1); (1, 3, VInt 1); (3, 4, VInt 2); (1, 5, VInt 1); (5, 6, VInt 1)] /\
        g_edges H = [(0, 1, VInt 1); (1, 2, VInt 1); (2, 3, VInt 1); (2, 4, VInt 1); (2, 5, VInt 1); (5, 6, VInt 2)]
  | None => False
  end /\ reroot_n 4 rr_w = None.
Proof.
  split; [vm_compute; reflexivity|]. split; [vm_compute; reflexivity|]. split; [vm_compute; repeat split; reflexivity|].
  split; [|vm_compute; reflexivity].
  vm_compute. repeat split. eexists. eexists. repeat split.
Qed.
