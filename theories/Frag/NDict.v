(** NDict: insertion-ordered dictionaries with natural-number keys (atom indices), as the values
    returned by strip_bonding_descriptors.  Shared by the Impl model and the specification. *)
From Coq Require Import String.
From Coq Require Import List Ascii ZArith Bool.
From CGV Require Import Base.PyBase Base.PyVal.
Import ListNotations.

(** insertion-ordered dicts with integer keys *)
Definition ndict (A : Type) := list (nat * A).
Fixpoint nd_append {A} (k : nat) (x : A) (d : ndict (list A)) : ndict (list A) :=   (* defaultdict(list)[k].append(x) *)
  match d with
  | [] => [(k, [x])]
  | (k', l) :: r => if Nat.eqb k k' then (k', l ++ [x]) :: r else (k', l) :: nd_append k x r
  end.
Fixpoint nd_set {A} (k : nat) (x : A) (d : ndict A) : ndict A :=                       (* d[k] = x *)
  match d with
  | [] => [(k, x)]
  | (k', y) :: r => if Nat.eqb k k' then (k', x) :: r else (k', y) :: nd_set k x r
  end.
Fixpoint nd_update (k : nat) (a : attrs) (d : ndict attrs) : ndict attrs :=            (* defaultdict(dict)[k].update(a) *)
  match d with
  | [] => [(k, aupdate [] a)]
  | (k', y) :: r => if Nat.eqb k k' then (k', aupdate y a) :: r else (k', y) :: nd_update k a r
  end.

Fixpoint nd_get {A} (k : nat) (d : ndict A) : option A :=
  match d with [] => None | (k', y) :: r => if Nat.eqb k k' then Some y else nd_get k r end.
(** dict equality (key order does not matter; keys are unique in a dict) *)
Definition nd_eqb {A} (eqb : A -> A -> bool) (a b : ndict A) : bool :=
  Nat.eqb (length a) (length b) &&
  forallb (fun kv => match nd_get (fst kv) b with Some y => eqb (snd kv) y | None => false end) a.
Fixpoint strs_eqb (a b : list pystr) : bool :=
  match a, b with [], [] => true | x :: a', y :: b' => str_eqb x y && strs_eqb a' b' | _, _ => false end.
