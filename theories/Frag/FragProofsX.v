(** FragProofsX: [strip_correct] on the domain extended by a bond symbol in front of "(" ([wfx]).
    Same induction as FragProofs.main with the per-item lemmas of FragProofs.v; the only change of
    the invariant: the pending order is None at the places where a descriptor may be written
    (before the first atom and after an atom), it may be Some after a bond symbol AND after the "("
    that follows it (the next atom clears it). *)
From Coq Require Import String.
From Coq Require Import List Ascii ZArith Bool Lia.
From CGV Require Import Base.PyBase Base.PyVal Gen.FragGen Dialect.DialectImpl Frag.NDict Frag.StripImpl Frag.FragText
     Frag.FragProofs Frag.FragTextX.
Import ListNotations.

Ltac zvac := let X := fresh in intros [X|X]; discriminate X.
Ltac zne := let X := fresh in intros X; discriminate X.

Lemma mainx fo : forall items z depth m sp co,
  pend m -> flush m = top sp co ->
  (z = ZStart -> s_n sp = 0) -> (z <> ZStart -> 1 <= s_n sp) -> (z = ZStart \/ z = ZAtom -> co = None) ->
  length (s_stack sp) = depth ->
  wfx_items z depth items = true -> has_mult items = false ->
  whole fo m (render items) = (sp' <- spec_run fo sp items ;; Ok (sres sp')).
Proof.
  induction items as [|it r IH]; intros z depth m sp co P F ZS ZN ZC D W HM.
  - unfold whole. cbn. rewrite (finish_pend m P), F. reflexivity.
  - assert (HM' : has_mult r = false).
    { unfold has_mult in *. cbn [existsb] in HM. apply orb_false_elim in HM. tauto. }
    destruct it as [d|t|d].
    + (* leading descriptor *)
      cbn [wfx_items] in W. destruct z; try discriminate W. apply andb_prop in W. destruct W as [Wd W].
      pose proof (ZS eq_refl) as N0. rewrite (ZC (or_introl eq_refl)) in *.
      destruct (advance fo m sp None (ILead d) r (spec_desc sp d) None P F Wd (or_introl eq_refl)
                  (item_lead fo sp d Wd N0)) as [m1 [P1 [F1 E]]].
      rewrite E. cbn [spec_run spec_item bind].
      apply (IH ZStart depth m1 (spec_desc sp d) None P1 F1); auto.
    + (* token *)
      cbn [wfx_items] in W. apply andb_prop in W. destruct W as [Wt W].
      destruct t as [e|body annot|b| | |b mk_|f|n].
      * (* atom *)
        destruct (item_atom fo sp co e _ Wt eq_refl) as [m0 R0].
        destruct (advance fo m sp co (ITok (TAtom e)) r _ None P F Wt (or_introl eq_refl) (ex_intro _ m0 R0)) as [m1 [P1 [F1 E]]].
        rewrite E. cbn [spec_run spec_item bind]. cbn [spec_tok bind].
        apply (IH ZAtom depth m1 _ None P1 F1); auto; try zne. intros _. cbn. lia.
      * (* bracket atom *)
        cbn [tok_ok] in Wt. apply andb_prop in Wt. destruct Wt as [Wb Wa].
        pose proof (item_bracket fo sp co body annot Wb Wa) as IB.
        assert (Wt : item_tok_ok (ITok (TBracket body annot)) = true) by (cbn [item_tok_ok tok_ok]; rewrite Wb, Wa; reflexivity).
        cbn [spec_run spec_item].
        destruct (spec_tok fo sp (TBracket body annot)) as [sp1|e] eqn:Es.
        -- destruct (advance fo m sp co (ITok (TBracket body annot)) r sp1 None P F Wt (or_introl eq_refl) IB) as [m1 [P1 [F1 E]]].
           rewrite E. cbn [bind].
           assert (N1 : 1 <= s_n sp1 /\ length (s_stack sp1) = depth).
           { cbn [spec_tok] in Es. destruct (fragment_node_parser fo match annot with Some x => x | None => [] end);
               cbn [bind] in Es; inversion Es. cbn. split; [lia|assumption]. }
           destruct N1 as [N1 D1].
           apply (IH ZAtom depth m1 sp1 None P1 F1); auto; try zne.
        -- cbn [bind]. apply (advance_err fo m sp co _ r e P F Wt (or_introl eq_refl) IB).
      * (* bond *)
        assert (N : 1 <= s_n sp) by (apply ZN; destruct z; try discriminate W; zne).
        destruct (advance fo m sp co (ITok (TBond b)) r _ _ P F Wt (or_intror N) (item_bond fo sp co b _ eq_refl)) as [m1 [P1 [F1 E]]].
        rewrite E. cbn [spec_run spec_item spec_tok bind].
        assert (W' : wfx_items ZBond depth r = true) by (destruct z; try discriminate W; exact W).
        apply (IH ZBond depth m1 _ _ P1 F1); auto; try zne; try zvac.
      * (* open: after an atom or after a bond symbol *)
        apply andb_prop in W. destruct W as [Wz W].
        assert (N : 1 <= s_n sp) by (apply ZN; destruct z; try discriminate Wz; zne).
        destruct (advance fo m sp co (ITok TOpen) r _ _ P F Wt (or_intror N) (item_open fo sp co _ eq_refl)) as [m1 [P1 [F1 E]]].
        rewrite E. cbn [spec_run spec_item spec_tok bind].
        apply (IH ZOpen (Datatypes.S depth) m1 _ _ P1 F1); auto; try zne; try zvac.
        cbn. rewrite D. reflexivity.
      * (* close *)
        apply andb_prop in W. destruct W as [Wz W]. destruct z; try discriminate Wz.
        destruct depth as [|dep]; [discriminate W|].
        assert (N : 1 <= s_n sp) by (apply ZN; zne).
        assert (NE : s_stack sp <> []) by (intros X; rewrite X in D; discriminate D).
        destruct (advance fo m sp co (ITok TClose) r _ _ P F Wt (or_intror N) (item_close fo sp co _ NE eq_refl)) as [m1 [P1 [F1 E]]].
        rewrite E. cbn [spec_run spec_item spec_tok bind].
        apply (IH ZAtom dep m1 _ _ P1 F1); auto; try zne.
        cbn. destruct (s_stack sp); [contradiction|]. cbn in D. cbn. lia.
      * (* ring marker *)
        apply andb_prop in W. destruct W as [Wz W]. destruct z; try discriminate Wz.
        assert (N : 1 <= s_n sp) by (apply ZN; zne).
        destruct (advance fo m sp co (ITok (TRing b mk_)) r _ _ P F Wt (or_intror N) (item_ring fo sp co b mk_ _ Wt eq_refl)) as [m1 [P1 [F1 E]]].
        rewrite E. cbn [spec_run spec_item spec_tok bind].
        apply (IH ZAtom depth m1 _ None P1 F1); auto; try zne.
      * (* slash *)
        assert (N : 1 <= s_n sp) by (apply ZN; destruct z; try discriminate W; zne).
        destruct (advance fo m sp co (ITok (TSlash f)) r _ _ P F Wt (or_intror N) (item_slash fo sp co f _ eq_refl)) as [m1 [P1 [F1 E]]].
        rewrite E. cbn [spec_run spec_item spec_tok bind].
        assert (W' : wfx_items ZBond depth r = true) by (destruct z; try discriminate W; exact W).
        apply (IH ZBond depth m1 _ _ P1 F1); auto; try zne; try zvac.
      * (* multiplier: excluded *)
        discriminate HM.
    + (* descriptor after an atom *)
      cbn [wfx_items] in W. apply andb_prop in W. destruct W as [W Wr]. apply andb_prop in W. destruct W as [Wz Wd].
      destruct z; try discriminate Wz.
      assert (N : 1 <= s_n sp) by (apply ZN; zne).
      rewrite (ZC (or_intror eq_refl)) in *.
      destruct (advance fo m sp None (IDesc d) r _ _ P F Wd (or_intror N) (item_desc fo sp d Wd)) as [m1 [P1 [F1 E]]].
      rewrite E. cbn [spec_run spec_item bind].
      apply (IH ZAtom depth m1 _ None P1 F1); auto; try zne.
Qed.

Theorem strip_correct_x fo toks dc : wfx toks dc = true -> excluded toks dc = false ->
  strip_bonding_descriptors fo (render (decorate toks dc)) = strip_spec fo toks dc.
Proof.
  intros W X. unfold wfx in W. apply andb_prop in W. destruct W as [_ W].
  unfold excluded, excluded_items, class_of in X.
  destruct (has_mult (decorate toks dc)) eqn:HM; [discriminate X|].
  unfold strip_bonding_descriptors, strip_spec, spec_items. rewrite init_top.
  change (m <- run fo (top sinit None) (render (decorate toks dc));; finish m)
    with (whole fo (top sinit None) (render (decorate toks dc))).
  apply (mainx fo (decorate toks dc) ZStart 0 (top sinit None) sinit None); auto.
  - exact I.
  - intros H; contradiction.
Qed.

(** non-vacuity: [$][#A]=([#B]#[>])-([#C])[#D] : symbols in front of both branches *)
Definition bx_toks := [TBracket (S "#A") None; TBond BDouble; TOpen; TBracket (S "#B") None; TClose; TBond BSingle; TOpen;
                       TBracket (S "#C") None; TClose; TBracket (S "#D") None].
Definition bx_dc := {| d_lead := [{| d_kind := "$"%char; d_label := []; d_sym := None |}];
                       d_after := [[]; []; []; [{| d_kind := ">"%char; d_label := []; d_sym := Some BTriple |}]] |}.
Lemma branch_symbol_example :
  wf bx_toks bx_dc = false /\ wfx bx_toks bx_dc = true /\ excluded bx_toks bx_dc = false /\
  to_string (render (decorate bx_toks bx_dc)) = "[$][#A]=([#B]#[>])-([#C])[#D]"%string /\
  exists a, strip_spec (fo_of_table []) bx_toks bx_dc = Ok (S "[#A]=([#B])-([#C])[#D]", [(0, [S "$1"]); (1, [S ">3"])], [], a).
Proof. repeat split; try (vm_compute; reflexivity). eexists. vm_compute. reflexivity. Qed.
