(** FragProofs: the character machine of StripImpl.v returns [strip_spec] on every decorated token
    list of the grammar outside the three defect classes.  Induction over the item list with the
    invariant: the machine is between two items ([pend]), and resolving its pending look-ahead
    ([flush]) gives exactly the state [mk MTop sp co clean] built from the specification state [sp]
    (node_count = atoms so far, prev_node = owner of the next descriptor, anchor = open branches,
    the three dictionaries, the clean text); the pending order [co] is None wherever a descriptor may
    be written (it is Some only between a bond symbol and the atom that must follow it). *)
From Coq Require Import String.
From Coq Require Import List Ascii ZArith Bool Lia.
From CGV Require Import Base.PyBase Base.PyVal Gen.FragGen Dialect.DialectImpl Frag.NDict Frag.StripImpl Frag.FragText.
Import ListNotations.

(** ** PeekIter is a one-character look-ahead over the rest of the text *)
Lemma peekiter_abs_next it :
  pi_next it = match pi_rest it with [] => Err EStopIter | c :: r => Ok (c, {| pi_coll := r; pi_pk := None |}) end
  \/ exists c it', pi_next it = Ok (c, it') /\ pi_rest it = c :: pi_rest it'.
Proof.
  destruct it as [coll [p|]]; unfold pi_next, pi_rest; cbn.
  - right. eexists. eexists. split; reflexivity.
  - left. destruct coll; reflexivity.
Qed.
Lemma peekiter_abs_next_rest it c it' : pi_next it = Ok (c, it') -> pi_rest it = c :: pi_rest it'.
Proof.
  destruct it as [coll [p|]]; unfold pi_next, pi_rest; cbn.
  - intros H; inversion H; reflexivity.
  - destruct coll; intros H; inversion H; reflexivity.
Qed.
Lemma peekiter_abs_next_stop it e : pi_next it = Err e -> pi_rest it = [] /\ e = EStopIter.
Proof.
  destruct it as [coll [p|]]; unfold pi_next, pi_rest; cbn; [discriminate|].
  destruct coll; intros H; inversion H; auto.
Qed.
(** [peek()] answers the head of the rest (None at the end) and does not change the rest *)
Lemma peekiter_abs_peek it : fst (pi_peek it) = hd_error (pi_rest it) /\ pi_rest (snd (pi_peek it)) = pi_rest it.
Proof.
  destruct it as [coll [p|]]; unfold pi_peek, pi_next, pi_rest; cbn; [auto|].
  destruct coll; cbn; auto.
Qed.

(** ** run *)
Lemma run_app fo s1 : forall m s2, run fo m (s1 ++ s2) = (m' <- run fo m s1 ;; run fo m' s2).
Proof.
  induction s1 as [|c r IH]; intros m s2; cbn; [reflexivity|].
  destruct (step fo m c) as [m1|e]; cbn; [apply IH|reflexivity].
Qed.

(** machine state built from a specification state *)
Definition mk (md : mode) (sp : sst) (co : option pyval) (sm : pystr) : mst :=
  {| m_mode := md; smile := sm; node_count := s_n sp; prev_node := s_owner sp; current_order := co;
     anchor := s_stack sp; bonding_descrpt := s_desc sp; ez_isomer_atoms := s_ez sp; attributes := s_ann sp |}.
Definition top (sp : sst) (co : option pyval) : mst := mk MTop sp co (s_clean sp).

Definition pend (m : mst) : Prop :=
  match m_mode m with MTop | MRing | MDescEnd _ | MElem _ => True | _ => False end.

Lemma init_top : init = top sinit None.
Proof. reflexivity. Qed.

(** ** facts about the generated tables *)
Definition lriga : pystr := S "lriga".
Lemma two_letter_second c0 c : two_letter c0 c = true -> char_in c lriga = true.
Proof.
  unfold two_letter, str_in, two_letter_elements. cbn. rewrite !andb_true_r, orb_false_r.
  intros H. repeat (apply orb_prop in H; destruct H as [H|H]);
    apply andb_prop in H; destruct H as [_ H]; apply Ascii.eqb_eq in H; subst c; reflexivity.
Qed.
Lemma is_kind_kind_chars c : is_kind c = char_in c kind_chars.
Proof. unfold is_kind, str_in, descriptor_kinds, char_in, kind_chars. cbn. rewrite !andb_true_r. reflexivity. Qed.
Lemma order_lookup_bchar b : order_lookup (bchar b) = Some (border b).
Proof. destruct b; reflexivity. Qed.
Lemma str_of_order_text v : str_of_order v = order_text v.
Proof. reflexivity. Qed.

Lemma step_pending fo m c : pend m -> combines m c = false -> step fo m c = top_step (flush m) c.
Proof.
  unfold pend, step, flush. destruct (m_mode m); intros P H; try contradiction; try rewrite H; reflexivity.
Qed.
Lemma desc_done_node_count m d : node_count (desc_done m d) = node_count m.
Proof. unfold desc_done. destruct (current_order m); reflexivity. Qed.

(** entering the next item: the pending look-ahead does not swallow its first character *)
Lemma no_combine m sp co c :
  pend m -> flush m = top sp co -> char_in c lriga = false -> (order_lookup c = None \/ 1 <= s_n sp) ->
  combines m c = false.
Proof.
  intros P F L O. unfold combines. unfold pend in P. destruct (m_mode m) eqn:E; try reflexivity.
  - destruct (order_lookup c) eqn:Eo; [|reflexivity].
    destruct O as [O|O]; [congruence|].
    assert (N : node_count (flush m) = s_n sp) by (rewrite F; reflexivity).
    unfold flush in N. rewrite E, desc_done_node_count in N. rewrite N. destruct (s_n sp); [lia|reflexivity].
  - destruct (two_letter c0 c) eqn:T; [|reflexivity]. apply two_letter_second in T. congruence.
Qed.
Lemma enter fo m sp co c s rest :
  pend m -> flush m = top sp co -> combines m c = false ->
  run fo m ((c :: s) ++ rest) = (m1 <- run fo (top sp co) (c :: s) ;; run fo m1 rest).
Proof.
  intros P F C. rewrite run_app. cbn [run]. rewrite (step_pending fo m c P C), F. reflexivity.
Qed.

(** ** scanning loops inside brackets *)
Lemma set_mode_mk md sp co sm md' : set_mode (mk md sp co sm) md' = mk md' sp co sm.
Proof. reflexivity. Qed.

Lemma run_label fo sp co sm : forall l d, forallb (fun c => negb (is_rbr c)) l = true ->
  run fo (mk (MDesc d) sp co sm) l = Ok (mk (MDesc (d ++ l)) sp co sm).
Proof.
  induction l as [|c r IH]; intros d H; cbn.
  - now rewrite app_nil_r.
  - cbn in H. apply andb_prop in H. destruct H as [H1 H2]. unfold is_rbr in H1.
    unfold step. cbn [m_mode mk]. destruct (Ascii.eqb c "]"%char); [discriminate|].
    cbn [bind]. rewrite set_mode_mk, IH by assumption. now rewrite <- app_assoc.
Qed.
Lemma alnum_not_rbr l : forallb is_alnum l = true -> forallb (fun c => negb (is_rbr c)) l = true.
Proof.
  intros H. apply forallb_forall. intros c I. rewrite forallb_forall in H. specialize (H c I).
  unfold is_rbr. destruct (Ascii.eqb_spec c "]"%char); [subst; discriminate|reflexivity].
Qed.
Lemma run_body fo sp co sm : forall b atom, forallb (fun c => negb (is_rbr c) && negb (is_semi c)) b = true ->
  run fo (mk (MAtom atom [] false) sp co sm) b = Ok (mk (MAtom (atom ++ b) [] false) sp co sm).
Proof.
  induction b as [|c r IH]; intros atom H; cbn.
  - now rewrite app_nil_r.
  - cbn in H. apply andb_prop in H. destruct H as [H1 H2]. apply andb_prop in H1. destruct H1 as [Ha Hb].
    unfold is_rbr in Ha. unfold is_semi in Hb.
    unfold step, atom_step. cbn [m_mode mk]. destruct (Ascii.eqb c "]"%char); [discriminate|].
    destruct (Ascii.eqb c ";"%char); [discriminate|]. cbn [andb negb bind]. rewrite set_mode_mk, IH by assumption.
    now rewrite <- app_assoc.
Qed.
Lemma run_annot fo sp co sm atom : forall a attr, forallb (fun c => negb (is_rbr c)) a = true ->
  run fo (mk (MAtom atom attr true) sp co sm) a = Ok (mk (MAtom atom (attr ++ a) true) sp co sm).
Proof.
  induction a as [|c r IH]; intros attr H; cbn.
  - now rewrite app_nil_r.
  - cbn in H. apply andb_prop in H. destruct H as [H1 H2]. unfold is_rbr in H1.
    unfold step, atom_step. cbn [m_mode mk]. destruct (Ascii.eqb c "]"%char); [discriminate|].
    rewrite andb_false_r. cbn [bind]. rewrite set_mode_mk, IH by assumption. now rewrite <- app_assoc.
Qed.
Lemma ringch_top_step m c : ringch c = true -> top_step m c = Ok (ring_enter m c).
Proof.
  destruct c as [[] [] [] [] [] [] [] []]; intros H; try discriminate H; reflexivity.
Qed.
Lemma run_ring fo sp : forall ms sm, forallb ringch ms = true ->
  run fo (mk MRing sp None sm) ms = Ok (mk MRing sp None (sm ++ ms)).
Proof.
  induction ms as [|c r IH]; intros sm H; cbn.
  - now rewrite app_nil_r.
  - cbn in H. apply andb_prop in H. destruct H as [H1 H2].
    unfold step. cbn [m_mode mk]. unfold flush. cbn [m_mode mk]. rewrite ringch_top_step by assumption.
    cbn [bind]. change (ring_enter (set_mode (mk MRing sp None sm) MTop) c) with (mk MRing sp None (sm ++ [c])).
    rewrite IH by assumption. now rewrite <- app_assoc.
Qed.
Lemma marker_ok_ringch m : marker_ok m = true -> exists c ms, m = c :: ms /\ ringch c = true /\ forallb ringch ms = true.
Proof.
  destruct m as [|p [|d ds]]; cbn; [discriminate| |].
  - intros H. exists p, []. unfold ringch. rewrite H. auto.
  - intros H. apply andb_prop in H. destruct H as [Hp H]. exists p, (d :: ds). split; [reflexivity|].
    unfold ringch at 1. unfold is_percent in Hp. unfold StripImpl.is_pct. rewrite Hp, orb_true_r. split; [reflexivity|].
    change (forallb is_digit (d :: ds) = true) in H.
    apply forallb_forall. intros x I. rewrite forallb_forall in H. unfold ringch. now rewrite (H x I).
Qed.

(** ** one item, started at the head of the loop *)
Definition item_res (fo : float_oracle) (sp : sst) (co : option pyval) (it : ditem) (sp1 : sst) (co1 : option pyval) : Prop :=
  exists m1, run fo (top sp co) (render_item it) = Ok m1 /\ pend m1 /\ flush m1 = top sp1 co1.

Lemma desc_scan fo sp co sm k label :
  char_in k kind_chars = true -> forallb is_alnum label = true ->
  run fo (mk MTop sp co sm) ("["%char :: k :: label ++ ["]"%char]) = Ok (mk (MDescEnd (k :: label)) sp co sm).
Proof.
  intros K L. change ("["%char :: k :: label ++ ["]"%char]) with (["["%char; k] ++ label ++ ["]"%char]).
  rewrite run_app.
  assert (E : run fo (mk MTop sp co sm) ["["%char; k] = Ok (mk (MDesc [k]) sp co sm)).
  { cbn [run]. change (step fo (mk MTop sp co sm) "["%char) with (Ok (mk MOpen sp co sm)). cbn [bind].
    unfold step. cbn [m_mode mk]. rewrite is_kind_kind_chars, K. reflexivity. }
  rewrite E. cbn [bind]. rewrite run_app, run_label by (apply alnum_not_rbr; assumption). cbn [bind app].
  cbn [run]. unfold step. cbn [m_mode mk]. reflexivity.
Qed.

Lemma item_atom fo sp co e sp1 : str_in e organic_atoms = true -> spec_tok fo sp (TAtom e) = Ok sp1 ->
  item_res fo sp co (ITok (TAtom e)) sp1 None.
Proof.
  intros H E. cbn in E. inversion E; subst sp1; clear E.
  unfold str_in, organic_atoms in H. cbn [existsb] in H.
  repeat (apply orb_prop in H; destruct H as [H|H]); try discriminate H;
    apply str_eqb_eq in H; subst e; (eexists; split; [reflexivity|split; [exact I|reflexivity]]).
Qed.

Lemma item_bond fo sp co b sp1 : spec_tok fo sp (TBond b) = Ok sp1 -> item_res fo sp co (ITok (TBond b)) sp1 (Some (border b)).
Proof.
  intros E. cbn in E. inversion E; subst sp1; clear E.
  destruct b; (eexists; split; [reflexivity|split; [exact I|reflexivity]]).
Qed.
Lemma item_open fo sp co sp1 : spec_tok fo sp TOpen = Ok sp1 -> item_res fo sp co (ITok TOpen) sp1 co.
Proof.
  intros E. cbn in E. inversion E; subst sp1; clear E. eexists; split; [reflexivity|split; [exact I|reflexivity]].
Qed.
Lemma item_close fo sp co sp1 : s_stack sp <> [] -> spec_tok fo sp TClose = Ok sp1 -> item_res fo sp co (ITok TClose) sp1 co.
Proof.
  intros N E. cbn in E. inversion E; subst sp1; clear E. destruct sp as [n o st cl ds ez an]. cbn in N.
  destruct st as [|a st]; [contradiction|]. eexists; split; [reflexivity|split; [exact I|reflexivity]].
Qed.
Lemma item_slash fo sp co f sp1 : spec_tok fo sp (TSlash f) = Ok sp1 -> item_res fo sp co (ITok (TSlash f)) sp1 co.
Proof.
  intros E. cbn in E. inversion E; subst sp1; clear E.
  destruct f; (eexists; split; [reflexivity|split; [exact I|]]); unfold top; cbn; rewrite app_nil_r; reflexivity.
Qed.

Lemma item_ring fo sp co b m sp1 : marker_ok m = true -> spec_tok fo sp (TRing b m) = Ok sp1 ->
  item_res fo sp co (ITok (TRing b m)) sp1 None.
Proof.
  intros M E. cbn in E. inversion E; subst sp1; clear E.
  destruct (marker_ok_ringch m M) as [c [ms [-> [Hc Hms]]]].
  assert (G : forall co' sm, run fo (mk MTop sp co' sm) (c :: ms) = Ok (mk MRing sp None (sm ++ c :: ms))).
  { intros co' sm. cbn [run]. change (step fo (mk MTop sp co' sm) c) with (top_step (mk MTop sp co' sm) c).
    rewrite ringch_top_step by assumption. cbn [bind].
    change (ring_enter (mk MTop sp co' sm) c) with (mk MRing sp None (sm ++ [c])).
    rewrite run_ring by assumption. now rewrite <- app_assoc. }
  unfold item_res, render_item, render_tok.
  destruct b as [b|]; cbn [optb app].
  - exists (mk MRing sp None ((s_clean sp ++ [bchar b]) ++ c :: ms)). split; [|split; [exact I|]].
    + cbn [run]. assert (S1 : step fo (top sp co) (bchar b) = Ok (mk MTop sp (Some (border b)) (s_clean sp ++ [bchar b])))
        by (destruct b; reflexivity).
      rewrite S1. cbn [bind]. apply G.
    + unfold flush, top. cbn. rewrite <- app_assoc. reflexivity.
  - exists (mk MRing sp None (s_clean sp ++ c :: ms)). split; [apply G|split; [exact I|reflexivity]].
Qed.

Lemma item_bracket fo sp co body annot : body_ok body = true -> annot_ok annot = true ->
  match spec_tok fo sp (TBracket body annot) with
  | Err e => run fo (top sp co) (render_item (ITok (TBracket body annot))) = Err e
  | Ok sp1 => item_res fo sp co (ITok (TBracket body annot)) sp1 None
  end.
Proof.
  intros B A. unfold body_ok in B. apply andb_prop in B. destruct B as [B1 B2].
  (* from '[' through the body *)
  assert (G : forall t rest, (t = "]"%char \/ t = ";"%char) ->
            run fo (top sp co) ("["%char :: body ++ t :: rest)
            = run fo (mk (MAtom ("["%char :: body) [] false) sp co (s_clean sp)) (t :: rest)).
  { intros t rest Ht. cbn [run]. change (step fo (top sp co) "["%char) with (Ok (mk MOpen sp co (s_clean sp))). cbn [bind].
    destruct body as [|c b].
    - cbn [app run]. unfold step. cbn [m_mode mk].
      assert (K : is_kind t = false) by (destruct Ht; subst t; reflexivity). rewrite K. reflexivity.
    - cbn [app run]. cbn [forallb] in B1. apply andb_prop in B1. destruct B1 as [Bc Bb].
      apply andb_prop in Bc. destruct Bc as [Bc1 Bc2]. unfold is_rbr in Bc1. unfold is_semi in Bc2.
      unfold step at 1. cbn [m_mode mk]. rewrite is_kind_kind_chars. destruct (char_in c kind_chars); [discriminate|].
      unfold atom_step. destruct (Ascii.eqb c "]"%char); [discriminate|]. destruct (Ascii.eqb c ";"%char); [discriminate|].
      cbn [andb negb bind]. rewrite set_mode_mk. cbn [app].
      change (run fo (mk (MAtom ["["%char; c] [] false) sp co (s_clean sp)) (b ++ t :: rest))
        with (run fo (mk (MAtom ["["%char; c] [] false) sp co (s_clean sp)) (b ++ (t :: rest))).
      rewrite run_app, run_body by assumption. reflexivity. }
  assert (R : run fo (top sp co) (render_tok (TBracket body annot))
             = bracket_done fo (top sp co) ("["%char :: body) (match annot with Some x => x | None => [] end)).
  { unfold render_tok. destruct annot as [a|].
    - cbn [app]. rewrite G by (right; reflexivity).
      cbn [run]. change (step fo (mk (MAtom ("["%char :: body) [] false) sp co (s_clean sp)) ";"%char)
        with (Ok (mk (MAtom ("["%char :: body) [] true) sp co (s_clean sp))). cbn [bind].
      rewrite run_app, run_annot by exact A. cbn [bind app run].
      unfold step. cbn [m_mode mk]. unfold atom_step. cbn [Ascii.eqb Bool.eqb]. unfold bracket_done.
      destruct (fragment_node_parser fo a) as [na|e]; reflexivity.
    - cbn [app]. rewrite G by (left; reflexivity).
      cbn [run]. unfold step. cbn [m_mode mk]. unfold atom_step. cbn [Ascii.eqb Bool.eqb]. unfold bracket_done.
      destruct (fragment_node_parser fo []) as [na|e]; reflexivity. }
  unfold item_res, render_item. rewrite R. unfold spec_tok, bracket_done.
  destruct (fragment_node_parser fo (match annot with Some x => x | None => [] end)) as [na|e]; cbn [bind]; [|reflexivity].
  eexists; split; [reflexivity|split; [exact I|]]. unfold flush, top, mk. cbn. reflexivity.
Qed.

Lemma item_desc fo sp d : desc_ok d = true ->
  item_res fo sp None (IDesc d) (spec_desc sp d) None.
Proof.
  destruct d as [k l sym]. unfold desc_ok. cbn [d_kind d_label d_sym]. intros H.
  apply andb_prop in H. destruct H as [K L].
  unfold item_res, render_item, desc_text. cbn [d_sym d_kind d_label].
  destruct sym as [b|].
  - exists (mk (MDescEnd (k :: l)) sp (Some (border b)) (s_clean sp ++ [bchar b])). split; [|split; [exact I|]].
    + cbn [optb app run].
      assert (S1 : step fo (top sp None) (bchar b) = Ok (mk MTop sp (Some (border b)) (s_clean sp ++ [bchar b])))
        by (destruct b; reflexivity).
      rewrite S1. cbn [bind]. apply desc_scan; assumption.
    + unfold flush. cbn [m_mode mk]. unfold desc_done. cbn [current_order mk].
      unfold top, mk, spec_desc, desc_entry, desc_order, desc_text. cbn. unfold py_drop_last. rewrite removelast_last. reflexivity.
  - exists (mk (MDescEnd (k :: l)) sp None (s_clean sp)). split; [|split; [exact I|]].
    + cbn [optb app]. apply desc_scan; assumption.
    + reflexivity.
Qed.

Lemma item_lead fo sp d : desc_ok d = true -> s_n sp = 0 ->
  item_res fo sp None (ILead d) (spec_desc sp d) None.
Proof.
  destruct d as [k l sym]. unfold desc_ok. cbn [d_kind d_label d_sym]. intros H N.
  apply andb_prop in H. destruct H as [K L].
  unfold item_res, render_item, desc_text. cbn [d_sym d_kind d_label].
  destruct sym as [b|].
  - exists (top (spec_desc sp {| d_kind := k; d_label := l; d_sym := Some b |}) None). split; [|split; [exact I|reflexivity]].
    replace ("["%char :: (k :: l) ++ "]"%char :: optb (Some b)) with (("["%char :: k :: l ++ ["]"%char]) ++ [bchar b])
      by (cbn; rewrite <- app_assoc; reflexivity).
    rewrite run_app. unfold top at 1. rewrite desc_scan by assumption. cbn [bind run].
    unfold step. cbn [m_mode mk]. unfold combines. cbn [m_mode mk node_count]. rewrite order_lookup_bchar, N. cbn [Nat.eqb bind].
    reflexivity.
  - exists (mk (MDescEnd (k :: l)) sp None (s_clean sp)). split; [|split; [exact I|]].
    + cbn [optb]. apply desc_scan; assumption.
    + reflexivity.
Qed.

(** ** the first character of an item is never swallowed by the look-ahead pending before it *)
Definition item_tok_ok (it : ditem) : bool :=
  match it with ILead d | IDesc d => desc_ok d | ITok t => tok_ok t end.
Definition is_start_item (it : ditem) : bool :=
  match it with ILead _ | ITok (TAtom _) | ITok (TBracket _ _) => true | _ => false end.
Lemma ringch_not_lriga c : ringch c = true -> char_in c lriga = false.
Proof. destruct c as [[] [] [] [] [] [] [] []]; intros H; try discriminate H; reflexivity. Qed.
Lemma item_first it : item_tok_ok it = true ->
  exists c s, render_item it = c :: s /\ char_in c lriga = false /\ (is_start_item it = true -> order_lookup c = None).
Proof.
  destruct it as [d|t|d]; cbn [item_tok_ok]; intros H.
  - eexists. eexists. split; [reflexivity|]. split; reflexivity.
  - destruct t as [e|body annot|b| | |b m|f|n]; cbn [tok_ok] in H.
    + unfold str_in, organic_atoms in H. cbn [existsb] in H.
      repeat (apply orb_prop in H; destruct H as [H|H]); try discriminate H;
        apply str_eqb_eq in H; subst e; (eexists; eexists; split; [reflexivity|split; reflexivity]).
    + eexists. eexists. split; [reflexivity|]. split; reflexivity.
    + destruct b; (eexists; eexists; split; [reflexivity|split; [reflexivity|discriminate]]).
    + eexists. eexists. split; [reflexivity|]. split; [reflexivity|discriminate].
    + eexists. eexists. split; [reflexivity|]. split; [reflexivity|discriminate].
    + destruct b as [b|].
      * destruct b; (eexists; eexists; split; [reflexivity|split; [reflexivity|discriminate]]).
      * destruct (marker_ok_ringch m H) as [c [ms [-> [Hc _]]]]. exists c, ms. split; [reflexivity|].
        split; [apply ringch_not_lriga; assumption|discriminate].
    + destruct f; (eexists; eexists; split; [reflexivity|split; [reflexivity|discriminate]]).
    + eexists. eexists. split; [reflexivity|]. split; [reflexivity|discriminate].
  - destruct d as [k l [b|]]; cbn [render_item d_sym optb app].
    + destruct b; (eexists; eexists; split; [reflexivity|split; [reflexivity|discriminate]]).
    + eexists. eexists. split; [reflexivity|]. split; [reflexivity|discriminate].
Qed.

Definition whole (fo : float_oracle) (m : mst) (s : pystr) : res result := m' <- run fo m s ;; finish m'.

Lemma advance fo m sp co it r sp1 co1 :
  pend m -> flush m = top sp co -> item_tok_ok it = true -> (is_start_item it = true \/ 1 <= s_n sp) ->
  item_res fo sp co it sp1 co1 ->
  exists m1, pend m1 /\ flush m1 = top sp1 co1 /\ whole fo m (render (it :: r)) = whole fo m1 (render r).
Proof.
  intros P F T Z [m1 [R [P1 F1]]]. exists m1. split; [assumption|]. split; [assumption|].
  destruct (item_first it T) as [c [s [E [L O]]]]. unfold whole. cbn [render flat_map]. rewrite E in *.
  rewrite (enter fo m sp co c s _ P F).
  - rewrite R. reflexivity.
  - apply (no_combine m sp co c P F L). destruct Z as [Z|Z]; [left; auto|right; assumption].
Qed.
Lemma advance_err fo m sp co it r e :
  pend m -> flush m = top sp co -> item_tok_ok it = true -> (is_start_item it = true \/ 1 <= s_n sp) ->
  run fo (top sp co) (render_item it) = Err e ->
  whole fo m (render (it :: r)) = Err e.
Proof.
  intros P F T Z R.
  destruct (item_first it T) as [c [s [E [L O]]]]. unfold whole. cbn [render flat_map]. rewrite E in *.
  rewrite (enter fo m sp co c s _ P F).
  - rewrite R. reflexivity.
  - apply (no_combine m sp co c P F L). destruct Z as [Z|Z]; [left; auto|right; assumption].
Qed.

(** ** the induction over the items *)
Definition sres (sp : sst) : result := (s_clean sp, s_desc sp, s_ez sp, s_ann sp).
Lemma finish_pend m : pend m -> finish m = Ok (result_of (flush m)).
Proof. unfold pend, finish. destruct (m_mode m); intros H; try contradiction; reflexivity. Qed.

Ltac zone_ne := let X := fresh in intros X; discriminate X.

Lemma main fo : forall items z depth m sp co,
  pend m -> flush m = top sp co ->
  (z = ZStart -> s_n sp = 0) -> (z <> ZStart -> 1 <= s_n sp) -> (z <> ZBond -> co = None) ->
  length (s_stack sp) = depth ->
  wf_items z depth items = true -> has_mult items = false ->
  whole fo m (render items) = (sp' <- spec_run fo sp items ;; Ok (sres sp')).
Proof.
  induction items as [|it r IH]; intros z depth m sp co P F ZS ZN ZC D W HM.
  - unfold whole. cbn. rewrite (finish_pend m P), F. reflexivity.
  - destruct it as [d|t|d].
    + (* leading descriptor *)
      cbn [wf_items] in W. destruct z; try discriminate W. apply andb_prop in W. destruct W as [Wd W].
      pose proof (ZS eq_refl) as N0. rewrite (ZC ltac:(discriminate)) in *.
      destruct (advance fo m sp None (ILead d) r (spec_desc sp d) None P F Wd (or_introl eq_refl)
                  (item_lead fo sp d Wd N0)) as [m1 [P1 [F1 E]]].
      rewrite E. cbn [spec_run spec_item bind].
      apply (IH ZStart depth m1 (spec_desc sp d) None); auto.
    + (* token *)
      cbn [wf_items] in W. apply andb_prop in W. destruct W as [Wt W].
      destruct t as [e|body annot|b| | |b mk_|f|n].
      * (* atom *)
        destruct (item_atom fo sp co e _ Wt eq_refl) as [m0 R0].
        destruct (advance fo m sp co (ITok (TAtom e)) r _ None P F Wt (or_introl eq_refl) (ex_intro _ m0 R0)) as [m1 [P1 [F1 E]]].
        rewrite E. cbn [spec_run spec_item bind]. cbn [spec_tok bind].
        eapply (IH ZAtom depth m1 _ None); eauto; try zone_ne.
        intros _. cbn. lia.
      * (* bracket atom *)
        cbn [tok_ok] in Wt. apply andb_prop in Wt. destruct Wt as [Wb Wa].
        pose proof (item_bracket fo sp co body annot Wb Wa) as IB.
        assert (Wt : item_tok_ok (ITok (TBracket body annot)) = true) by (cbn; rewrite Wb, Wa; reflexivity).
        cbn [spec_run spec_item].
        destruct (spec_tok fo sp (TBracket body annot)) as [sp1|e] eqn:Es.
        -- destruct (advance fo m sp co (ITok (TBracket body annot)) r sp1 None P F Wt (or_introl eq_refl) IB) as [m1 [P1 [F1 E]]].
           rewrite E. cbn [bind].
           assert (N1 : 1 <= s_n sp1).
           { cbn in Es. destruct (fragment_node_parser fo _); cbn in Es; inversion Es. cbn. lia. }
           assert (D1 : length (s_stack sp1) = depth).
           { cbn in Es. destruct (fragment_node_parser fo _); cbn in Es; inversion Es. cbn. assumption. }
           eapply (IH ZAtom depth m1 sp1 None); eauto; try zone_ne.
        -- cbn [bind]. apply (advance_err fo m sp co _ r e P F Wt (or_introl eq_refl) IB).
      * (* bond *)
        assert (N : 1 <= s_n sp) by (apply ZN; destruct z; try discriminate W; zone_ne).
        destruct (advance fo m sp co (ITok (TBond b)) r _ _ P F Wt (or_intror N) (item_bond fo sp co b _ eq_refl)) as [m1 [P1 [F1 E]]].
        rewrite E. cbn [spec_run spec_item spec_tok bind].
        destruct z; try discriminate W; eapply (IH ZBond depth m1 _ _); eauto; try zone_ne;
          intros X; exfalso; apply X; reflexivity.
      * (* open *)
        apply andb_prop in W. destruct W as [Wz W]. destruct z; try discriminate Wz.
        assert (N : 1 <= s_n sp) by (apply ZN; zone_ne).
        destruct (advance fo m sp co (ITok TOpen) r _ _ P F Wt (or_intror N) (item_open fo sp co _ eq_refl)) as [m1 [P1 [F1 E]]].
        rewrite E. cbn [spec_run spec_item spec_tok bind].
        eapply (IH ZOpen (Datatypes.S depth) m1 _ _); eauto; try zone_ne.
        -- intros _. apply ZC. discriminate.
        -- cbn. rewrite D. reflexivity.
      * (* close *)
        apply andb_prop in W. destruct W as [Wz W]. destruct z; try discriminate Wz.
        destruct depth as [|dep]; [discriminate W|].
        assert (N : 1 <= s_n sp) by (apply ZN; zone_ne).
        assert (NE : s_stack sp <> []) by (intros X; rewrite X in D; discriminate D).
        destruct (advance fo m sp co (ITok TClose) r _ _ P F Wt (or_intror N) (item_close fo sp co _ NE eq_refl)) as [m1 [P1 [F1 E]]].
        rewrite E. cbn [spec_run spec_item spec_tok bind].
        eapply (IH ZAtom dep m1 _ _); eauto; try zone_ne.
        cbn. destruct (s_stack sp); [contradiction|]. cbn in D. cbn. lia.
      * (* ring marker *)
        apply andb_prop in W. destruct W as [Wz W]. destruct z; try discriminate Wz.
        assert (N : 1 <= s_n sp) by (apply ZN; zone_ne).
        destruct (advance fo m sp co (ITok (TRing b mk_)) r _ _ P F Wt (or_intror N) (item_ring fo sp co b mk_ _ Wt eq_refl)) as [m1 [P1 [F1 E]]].
        rewrite E. cbn [spec_run spec_item spec_tok bind].
        eapply (IH ZAtom depth m1 _ None); eauto; try zone_ne.
      * (* slash *)
        assert (N : 1 <= s_n sp) by (apply ZN; destruct z; try discriminate W; zone_ne).
        destruct (advance fo m sp co (ITok (TSlash f)) r _ _ P F Wt (or_intror N) (item_slash fo sp co f _ eq_refl)) as [m1 [P1 [F1 E]]].
        rewrite E. cbn [spec_run spec_item spec_tok bind].
        destruct z; try discriminate W; eapply (IH ZBond depth m1 _ _); eauto; try zone_ne;
          intros X; exfalso; apply X; reflexivity.
      * (* multiplier: excluded *)
        discriminate HM.
    + (* descriptor after an atom *)
      cbn [wf_items] in W. apply andb_prop in W. destruct W as [W Wr]. apply andb_prop in W. destruct W as [Wz Wd].
      destruct z; try discriminate Wz.
      assert (N : 1 <= s_n sp) by (apply ZN; zone_ne).
      rewrite (ZC ltac:(discriminate)) in *.
      destruct (advance fo m sp None (IDesc d) r _ _ P F Wd (or_intror N) (item_desc fo sp d Wd)) as [m1 [P1 [F1 E]]].
      rewrite E. cbn [spec_run spec_item bind].
      eapply (IH ZAtom depth m1 _ None); eauto; try zone_ne.
Qed.

(** ** the theorem *)
Theorem strip_correct fo toks dc : wf toks dc = true -> excluded toks dc = false ->
  strip_bonding_descriptors fo (render (decorate toks dc)) = strip_spec fo toks dc.
Proof.
  intros W X. unfold wf in W. apply andb_prop in W. destruct W as [_ W].
  unfold excluded, excluded_items, class_of in X.
  destruct (has_mult (decorate toks dc)) eqn:HM; [discriminate X|].
  unfold strip_bonding_descriptors, strip_spec, spec_items. rewrite init_top.
  change (m <- run fo (top sinit None) (render (decorate toks dc));; finish m)
    with (whole fo (top sinit None) (render (decorate toks dc))).
  apply (main fo (decorate toks dc) ZStart 0 (top sinit None) sinit None); auto.
  - exact I.
  - intros H; contradiction.
Qed.
