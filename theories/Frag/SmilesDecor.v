(** SmilesDecor: bonding descriptors and annotations are carried along by the re-rooting step (text level of C01).
    [parser_view] (SmilesIndex.v) is what strip_bonding_descriptors returns for a decorated fragment: descriptors keyed
    by the parser's current atom, annotations by the node counter.  For the two writings  a P [b] x R  and
    x ( [b] a P ) R  with the SAME descriptors written after the same tokens (the leading descriptors of the first
    writing are written after a in the second, where they are the first descriptors of a again) the two descriptor
    dictionaries and the two annotation dictionaries are related by the rotation [rot m] of SmilesReroot.v: atom
    [rot m i] of the second writing carries exactly the descriptor list (same order) and the annotation of atom i of
    the first.  Also for every continuation of a permutation simulation ([xrun_psimu]). *)
From Coq Require Import String.
From Coq Require Import List Ascii ZArith Bool Lia Permutation.
From CGV Require Import Base.PyBase Base.PyVal Dialect.DialectImpl Gen.SmilesGen Frag.NDict Frag.StripImpl Frag.FragText Frag.FragProofs
     Frag.SmilesParse Frag.SmilesSpec Frag.SmilesProofs Frag.SmilesIndex Frag.SmilesPerm Frag.SmilesReverse Frag.SmilesPermR
     Frag.SmilesPermX Frag.SmilesPermG Frag.SmilesReroot Frag.SmilesRewrite.
Import ListNotations.

(** * dictionaries *)
Definition drel {A} (f : nat -> nat) (d d' : ndict A) : Prop := forall i, nd_get (f i) d' = nd_get i d.
Lemma nd_get_append {A} j k (x : A) d :
  nd_get j (nd_append k x d) = if Nat.eqb j k then Some ((match nd_get k d with Some l => l | None => [] end) ++ [x]) else nd_get j d.
Proof.
  induction d as [|[k' l] r IH]; cbn [nd_append nd_get].
  - destruct (Nat.eqb j k); reflexivity.
  - destruct (Nat.eqb_spec k k') as [->|NK]; cbn [nd_get].
    + destruct (Nat.eqb j k'); reflexivity.
    + rewrite IH. destruct (Nat.eqb_spec j k') as [->|NJ].
      * destruct (Nat.eqb_spec k' k); [congruence|reflexivity].
      * reflexivity.
Qed.
Lemma nd_get_update j k pa d :
  nd_get j (nd_update k pa d) = if Nat.eqb j k then Some (aupdate (match nd_get k d with Some y => y | None => [] end) pa) else nd_get j d.
Proof.
  induction d as [|[k' y] r IH]; cbn [nd_update nd_get].
  - destruct (Nat.eqb j k); reflexivity.
  - destruct (Nat.eqb_spec k k') as [->|NK]; cbn [nd_get].
    + destruct (Nat.eqb j k'); reflexivity.
    + rewrite IH. destruct (Nat.eqb_spec j k') as [->|NJ].
      * destruct (Nat.eqb_spec k' k); [congruence|reflexivity].
      * reflexivity.
Qed.
Lemma eqb_inj f (I : forall x y : nat, f x = f y -> x = y) i k : Nat.eqb (f i) (f k) = Nat.eqb i k.
Proof. destruct (Nat.eqb_spec i k) as [->|N]; [apply Nat.eqb_refl|]. destruct (Nat.eqb_spec (f i) (f k)) as [E|_]; [exfalso; apply N, I, E|reflexivity]. Qed.
Lemma drel_append {A} f (I : forall x y : nat, f x = f y -> x = y) k (x : A) d d' :
  drel f d d' -> drel f (nd_append k x d) (nd_append (f k) x d').
Proof. intros H i. rewrite !nd_get_append, (eqb_inj f I), (H k). destruct (Nat.eqb i k); [reflexivity|apply H]. Qed.
Lemma drel_update f (I : forall x y : nat, f x = f y -> x = y) k pa d d' :
  drel f d d' -> drel f (nd_update k pa d) (nd_update (f k) pa d').
Proof. intros H i. rewrite !nd_get_update, (eqb_inj f I), (H k). destruct (Nat.eqb i k); [reflexivity|apply H]. Qed.
Lemma drel_add_descs f (I : forall x y : nat, f x = f y -> x = y) k : forall ds d d',
  drel f d d' -> drel f (add_descs k ds d) (add_descs (f k) ds d').
Proof.
  unfold add_descs. induction ds as [|x r IH]; intros d d' H; [exact H|]. cbn [fold_left]. apply IH. apply drel_append; assumption.
Qed.
Lemma add_descs_app k ds1 ds2 d : add_descs k (ds1 ++ ds2) d = add_descs k ds2 (add_descs k ds1 d).
Proof. unfold add_descs. apply fold_left_app. Qed.
Lemma nd_get_add_descs_other j k : forall ds (d : ndict (list pystr)), j <> k -> nd_get j (add_descs k ds d) = nd_get j d.
Proof.
  unfold add_descs. induction ds as [|x r IH]; intros d N; [reflexivity|]. cbn [fold_left]. rewrite (IH _ N), nd_get_append.
  destruct (Nat.eqb_spec j k); [contradiction|reflexivity].
Qed.
Lemma nd_get_update_other j k pa d : j <> k -> nd_get j (nd_update k pa d) = nd_get j d.
Proof. intros N. rewrite nd_get_update. destruct (Nat.eqb_spec j k); [contradiction|reflexivity]. Qed.

(** * one token of [xrun] *)
Definition ann_step (fo : float_oracle) (g : gst) (a : ndict attrs) (t : tok) : res (ndict attrs) :=
  match t with
  | TBracket _ annot => pa <- fragment_node_parser fo (match annot with Some x => x | None => [] end) ;; Ok (nd_update (q_n g) pa a)
  | _ => Ok a
  end.
Lemma xrun_cons fo g d a t r after :
  xrun fo g d a (t :: r) after =
  (g' <- gstep false g t ;; a' <- ann_step fo g a t ;; xrun fo g' (add_descs (cur_idx g') (hd [] after) d) a' r (tl after)).
Proof. reflexivity. Qed.
Lemma xrun_app fo : forall t1 g d a t2 a1 a2, length a1 = length t1 ->
  xrun fo g d a (t1 ++ t2) (a1 ++ a2) = ('(g1, d1, an1) <- xrun fo g d a t1 a1 ;; xrun fo g1 d1 an1 t2 a2).
Proof.
  induction t1 as [|t r IH]; intros g d a t2 a1 a2 L.
  - destruct a1; [reflexivity|discriminate L].
  - destruct a1 as [|ds a1]; [discriminate L|]. cbn [app]. rewrite !xrun_cons. cbn [hd tl].
    destruct (gstep false g t) as [g'|e]; cbn [bind]; [|reflexivity].
    destruct (ann_step fo g a t) as [a'|e]; cbn [bind]; [|reflexivity]. apply IH. cbn in L. lia.
Qed.

(** * the dictionaries along a permutation simulation *)
Record XS (s : nat -> nat) (g h : gst) (d d' : ndict (list pystr)) (a a' : ndict attrs) : Prop := {
  xs_sim : PSimU s g h;
  xs_cur : exists c, q_cur g = Some c;
  xs_d : drel s d d';
  xs_a : drel s a a' }.
Definition xres := (gst * ndict (list pystr) * ndict attrs)%type.
Definition xrel (s : nat -> nat) (r1 r2 : res xres) : Prop :=
  match r1, r2 with
  | Ok (g1, d1, a1), Ok (h1, d1', a1') => XS s g1 h1 d1 d1' a1 a1' /\ sigma_ok s (q_n g1)
  | Err e, Err e' => e = e'
  | _, _ => False
  end.
Lemma xrun_psimu s fo : forall toks after g h d d' a a', sigma_ok s (q_n g) -> XS s g h d d' a a' ->
  xrel s (xrun fo g d a toks after) (xrun fo h d' a' toks after).
Proof.
  induction toks as [|t r IH]; intros after g h d d' a a' SO X; [cbn; split; assumption|].
  destruct X as [PS [c C] D A]. rewrite !xrun_cons.
  pose proof (gstep_psimu s g h t SO PS) as H.
  destruct (gstep false g t) as [g1|e] eqn:EG, (gstep false h t) as [h1|e']; cbn [bind]; try contradiction; [|exact H].
  destruct H as [PS1 SO1]. destruct SO as [I [B F]].
  assert (AN : match ann_step fo g a t, ann_step fo h a' t with
               | Ok a1, Ok a1' => drel s a1 a1' | Err e, Err e' => e = e' | _, _ => False end).
  { unfold ann_step. destruct t; try exact A.
    destruct (fragment_node_parser fo match annot with Some x => x | None => [] end) as [pa|e]; cbn [bind]; [|reflexivity].
    rewrite (pu_n _ _ _ PS). replace (nd_update (q_n g) pa a') with (nd_update (s (q_n g)) pa a') by (rewrite F by lia; reflexivity).
    apply drel_update; assumption. }
  destruct (ann_step fo g a t) as [a1|e], (ann_step fo h a' t) as [a1'|e']; cbn [bind]; try contradiction; [|exact AN].
  destruct (gstep_cur_some g t g1 c C EG) as [c1 C1].
  apply IH; [exact SO1|]. constructor; [exact PS1|eauto| |exact AN].
  assert (CI : cur_idx h1 = s (cur_idx g1)) by (unfold cur_idx; rewrite (pu_cur _ _ _ PS1), C1; reflexivity).
  rewrite CI. apply drel_add_descs; assumption.
Qed.

(** * the dictionaries while the groups P are read, one atom and one bond ahead *)
Lemma binv_step c pend depth g t r g1 : blocksb pend depth (t :: r) = true -> BInv c pend depth g -> gstep false g t = Ok g1 ->
  (t = TClose -> q_stack g <> []) /\ exists pend' depth', blocksb pend' depth' r = true /\ BInv c pend' depth' g1.
Proof.
  intros B BI EG.
  assert (NC : t = TClose -> q_stack g <> []).
  { intros ->. cbn [blocksb] in B. apply andb_prop in B. destruct B as [_ B]. destruct depth; [discriminate B|].
    destruct BI as [L _ _ _ _]. destruct (q_stack g); [discriminate L|discriminate]. }
  split; [exact NC|]. destruct BI as [L [a Ca] Zr La Pe].
  destruct t as [e|body annot|bd| | |bd m|fw|n]; cbn [blocksb] in B; cbn [gstep] in EG.
  - apply andb_prop in B. destruct B as [D B]. apply Nat.ltb_lt in D. injection EG as <-. exists false, depth. split; [exact B|].
    constructor; cbn; auto; try (eexists; reflexivity); try (intros; lia).
  - apply andb_prop in B. destruct B as [D B]. apply Nat.ltb_lt in D. injection EG as <-. exists false, depth. split; [exact B|].
    constructor; cbn; auto; try (eexists; reflexivity); try (intros; lia).
  - apply andb_prop in B. destruct B as [D B]. apply Nat.ltb_lt in D. injection EG as <-. exists true, depth. split; [exact B|].
    constructor; cbn; auto; try (eexists; exact Ca); try (intros; lia); try (intros; discriminate).
  - injection EG as <-. exists pend, (Datatypes.S depth). split; [exact B|]. constructor; cbn; rewrite ?Ca.
    + cbn. lia.
    + eexists; reflexivity.
    + intros; lia.
    + intros _. destruct depth as [|d].
      * rewrite Zr in Ca by reflexivity. inversion Ca; subst. destruct (q_stack g); [exists []; reflexivity|discriminate L].
      * destruct (La ltac:(lia)) as [st Hst]. exists (a :: st). rewrite Hst. reflexivity.
    + exact Pe.
  - apply andb_prop in B. destruct B as [Pn B]. destruct pend; [discriminate Pn|]. destruct depth as [|d]; [discriminate B|].
    injection EG as <-. exists false, d. split; [exact B|].
    destruct (La ltac:(lia)) as [st Hst]. destruct (q_stack g) as [|y rest] eqn:Es; [discriminate L|].
    constructor; cbn.
    + cbn in L. lia.
    + eexists; reflexivity.
    + intros ->. destruct rest; [|discriminate L]. destruct st as [|y' [|y'' st']]; cbn in Hst; inversion Hst; subst; try reflexivity.
    + intros D. destruct st as [|y' st']; cbn in Hst; inversion Hst; subst; [cbn in L; lia|]. exists st'. reflexivity.
    + exact Pe.
  - apply andb_prop in B. destruct B as [D B]. apply Nat.ltb_lt in D. exists false, depth. split; [exact B|].
    unfold add_ring in EG. rewrite Ca in EG. destruct (ring_get (marker_val m) (q_open g)) as [[j o]|].
    + destruct (merge_bond (option_map bchar bd) o); cbn [bind] in EG; [|discriminate EG].
      destruct (has_edge a j (q_edges g)); [discriminate EG|]. destruct (Nat.eqb a j); [discriminate EG|].
      injection EG as <-. constructor; cbn; rewrite ?Ca; auto; try (eexists; reflexivity); try (intros; lia).
    + injection EG as <-. constructor; cbn; rewrite ?Ca; auto; try (eexists; reflexivity); try (intros; lia).
  - apply andb_prop in B. destruct B as [D B]. apply Nat.ltb_lt in D. injection EG as <-. exists pend, depth. split; [exact B|].
    constructor; auto. eexists; exact Ca.
  - apply andb_prop in B. destruct B as [D B]. apply Nat.ltb_lt in D. injection EG as <-. exists pend, depth. split; [exact B|].
    constructor; auto. eexists; exact Ca.
Qed.

Definition xrrel (x : pystr) (b : bondstr) (c : nat) (d0' : ndict (list pystr)) (a0' : ndict attrs) (r1 r2 : res xres) : Prop :=
  match r1, r2 with
  | Ok (g1, d1, a1), Ok (h1, d1', a1') =>
      RSim x b g1 h1 /\ BInv c false 0 g1 /\ drel Datatypes.S d1 d1' /\ drel Datatypes.S a1 a1' /\
      nd_get 0 d1' = nd_get 0 d0' /\ nd_get 0 a1' = nd_get 0 a0'
  | Err e, Err e' => e = e'
  | _, _ => False
  end.
Lemma xrun_rsim x b c fo : forall toks after pend depth g h d d' a a',
  blocksb pend depth toks = true -> RSim x b g h -> BInv c pend depth g -> drel Datatypes.S d d' -> drel Datatypes.S a a' ->
  xrrel x b c d' a' (xrun fo g d a toks after) (xrun fo h d' a' toks after).
Proof.
  induction toks as [|t r IH]; intros after pend depth g h d d' a a' B RS BI D A.
  - cbn [blocksb] in B. apply andb_prop in B. destruct B as [B1 B2]. apply Nat.eqb_eq in B2. subst depth.
    destruct pend; [discriminate B1|]. cbn. split; [exact RS|]. split; [exact BI|]. split; [exact D|]. split; [exact A|]. split; reflexivity.
  - rewrite !xrun_cons.
    destruct (gstep false g t) as [g1|e] eqn:EG.
    + destruct (binv_step c pend depth g t r g1 B BI EG) as [NC [pend' [depth' [B' BI']]]].
      pose proof (gstep_rsim x b g h t RS NC) as H. rewrite EG in H.
      destruct (gstep false h t) as [h1|e']; [|contradiction]. cbn [bind].
      assert (SI : forall p q : nat, Datatypes.S p = Datatypes.S q -> p = q) by (intros p q E; injection E; auto).
      assert (AN : match ann_step fo g a t, ann_step fo h a' t with
                   | Ok a1, Ok a1' => drel Datatypes.S a1 a1' /\ nd_get 0 a1' = nd_get 0 a' | Err e, Err e' => e = e' | _, _ => False end).
      { unfold ann_step. destruct t; try (split; [exact A|reflexivity]).
        destruct (fragment_node_parser fo match annot with Some x0 => x0 | None => [] end) as [pa|e]; cbn [bind]; [|reflexivity].
        rewrite (rs_n _ _ _ _ RS). split; [apply drel_update; assumption|apply nd_get_update_other; discriminate]. }
      destruct (ann_step fo g a t) as [a1|e], (ann_step fo h a' t) as [a1'|e']; cbn [bind]; try contradiction; [|exact AN].
      destruct AN as [A1 A10]. destruct (bi_cur _ _ _ _ BI') as [c1 C1].
      assert (CI : cur_idx h1 = Datatypes.S (cur_idx g1)) by (unfold cur_idx; rewrite (rs_cur _ _ _ _ H), C1; reflexivity).
      pose proof (IH (tl after) pend' depth' g1 h1 (add_descs (cur_idx g1) (hd [] after) d) (add_descs (cur_idx h1) (hd [] after) d') a1 a1'
                    B' H BI' ltac:(rewrite CI; apply drel_add_descs; assumption) A1) as R.
      unfold xrrel in *.
      destruct (xrun fo g1 (add_descs (cur_idx g1) (hd [] after) d) a1 r (tl after)) as [[[g2 d2] a2]|e2],
               (xrun fo h1 (add_descs (cur_idx h1) (hd [] after) d') a1' r (tl after)) as [[[h2 d2'] a2']|e2']; try contradiction; [|exact R].
      destruct R as [R1 [R2 [R3 [R4 [R5 R6]]]]]. split; [exact R1|]. split; [exact R2|]. split; [exact R3|]. split; [exact R4|]. split.
      * rewrite R5, CI. apply nd_get_add_descs_other. discriminate.
      * rewrite R6. exact A10.
    + (* the step fails on the left: it fails on the right *)
      assert (NC : t = TClose -> q_stack g <> []).
      { intros ->. cbn [gstep] in EG. discriminate EG. }
      pose proof (gstep_rsim x b g h t RS NC) as H. rewrite EG in H.
      destruct (gstep false h t) as [h1|e']; [contradiction|]. cbn [bind]. exact H.
Qed.

(** keys of the dictionaries stay below the node counter *)
Definition kbound {A} (n : nat) (d : ndict A) : Prop := forall i, n <= i -> nd_get i d = None.
Lemma kbound_add_descs k n ds (d : ndict (list pystr)) : k < n -> kbound n d -> kbound n (add_descs k ds d).
Proof. intros K H i L. rewrite nd_get_add_descs_other by lia. apply H. exact L. Qed.
Lemma kbound_mono {A} n m (d : ndict A) : n <= m -> kbound n d -> kbound m d.
Proof. intros L H i Li. apply H. lia. Qed.
Lemma xrun_kbound fo : forall toks after g d a g1 d1 a1, GInv g -> (exists c, q_cur g = Some c) ->
  kbound (q_n g) d -> kbound (q_n g) a -> xrun fo g d a toks after = Ok (g1, d1, a1) ->
  kbound (q_n g1) d1 /\ kbound (q_n g1) a1.
Proof.
  induction toks as [|t r IH]; intros after g d a g1 d1 a1 GI [c C] KD KA H.
  - cbn in H. inversion H; subst. split; assumption.
  - rewrite xrun_cons in H. destruct (gstep false g t) as [g'|e] eqn:EG; cbn [bind] in H; [|discriminate H].
    destruct (ann_step fo g a t) as [a'|e] eqn:EA; cbn [bind] in H; [|discriminate H].
    pose proof (gstep_ginv false g t g' GI EG) as GI'. pose proof (gstep_qn false g t g' EG) as QN.
    destruct (gstep_cur_some g t g' c C EG) as [c' C'].
    apply (IH (tl after) g' (add_descs (cur_idx g') (hd [] after) d) a' g1 d1 a1 GI' ltac:(eauto)); [| |exact H].
    + apply kbound_add_descs; [unfold cur_idx; rewrite C'; apply (gi_cur g' GI' c' C')|]. apply (kbound_mono (q_n g)); [lia|exact KD].
    + unfold ann_step in EA. destruct t; try (inversion EA; subst; apply (kbound_mono (q_n g)); [lia|exact KA]).
      destruct (fragment_node_parser fo match annot with Some x => x | None => [] end); cbn [bind] in EA; [|discriminate EA].
      inversion EA; subst. intros i Li. unfold count_atoms in QN. cbn in QN. rewrite nd_get_update_other by lia. apply KA. lia.
Qed.
Lemma nd_get_add_descs_same k : forall ds (d : ndict (list pystr)),
  nd_get k (add_descs k ds d) = match ds with [] => nd_get k d | _ => Some ((match nd_get k d with Some l => l | None => [] end) ++ map desc_entry ds) end.
Proof.
  unfold add_descs. induction ds as [|x r IH]; intros d; [reflexivity|]. cbn [fold_left]. rewrite IH, nd_get_append, Nat.eqb_refl.
  destruct r; cbn [map]; [reflexivity|]. rewrite <- app_assoc. reflexivity.
Qed.

(** the annotation of a token *)
Definition tok_ann (fo : float_oracle) (t : tok) : res (option attrs) :=
  match t with
  | TBracket _ annot => pa <- fragment_node_parser fo (match annot with Some x => x | None => [] end) ;; Ok (Some pa)
  | _ => Ok None
  end.
Lemma ann_step_tok fo g a t : ann_step fo g a t =
  match tok_ann fo t with Ok (Some pa) => Ok (nd_update (q_n g) pa a) | Ok None => Ok a | Err e => Err e end.
Proof. unfold ann_step, tok_ann. destruct t; try reflexivity. destruct (fragment_node_parser fo _); reflexivity. Qed.
Definition put_ann (k : nat) (o : option attrs) (a : ndict attrs) : ndict attrs := match o with Some pa => nd_update k pa a | None => a end.

Definition bond_after (b : option bsym) : list (list desc) := match b with Some _ => [[]] | None => [] end.
Definition src_after (aa : list desc) (aP : list (list desc)) (b : option bsym) (ax : list desc) (aR : list (list desc)) : list (list desc) :=
  aa :: aP ++ bond_after b ++ ax :: aR.
Definition dst_after (lead aa : list desc) (aP : list (list desc)) (b : option bsym) (ax : list desc) (aR : list (list desc)) : list (list desc) :=
  ax :: [] :: bond_after b ++ (lead ++ aa) :: aP ++ [] :: aR.
Definition both_fail_or (P : xres -> xres -> Prop) (r1 r2 : res xres) : Prop :=
  match r1, r2 with Ok v1, Ok v2 => P v1 v2 | Err _, Err _ => True | _, _ => False end.

Definition is_err {A} (r : res A) : Prop := match r with Err _ => True | Ok _ => False end.
Lemma xrun_bad_ann fo x e : is_atomtok x = true -> tok_ann fo x = Err e ->
  forall pre g d a apre ax R aR, length apre = length pre -> is_err (xrun fo g d a (pre ++ x :: R) (apre ++ ax :: aR)).
Proof.
  intros Ax EX pre g d a apre ax R aR L. rewrite (xrun_app fo pre g d a (x :: R) apre (ax :: aR) L).
  destruct (xrun fo g d a pre apre) as [[[g1 d1] a1]|e1]; cbn [bind]; [|exact I].
  rewrite xrun_cons, ann_step_tok, EX, (atom_step _ _ Ax). cbn. exact I.
Qed.
Lemma add_descs_nil k (d : ndict (list pystr)) : add_descs k [] d = d.
Proof. reflexivity. Qed.
Lemma xrun_bond fo g d a b rest arest :
  xrun fo g d a (bond_toks b ++ rest) (bond_after b ++ arest) =
  xrun fo (match b with
           | Some s => {| q_atoms := q_atoms g; q_edges := q_edges g; q_cur := q_cur g; q_n := q_n g; q_pend := Some (bchar s);
                          q_stack := q_stack g; q_open := q_open g; q_ez := q_ez g |}
           | None => g end) d a rest arest.
Proof. destruct b as [s|]; [|reflexivity]. cbn [bond_toks bond_after app]. rewrite xrun_cons. reflexivity. Qed.

Theorem reroot_decor fo a P b x R lead aa aP ax aR :
  is_atomtok a = true -> is_atomtok x = true -> blocksb false 0 P = true -> length aP = length P ->
  let m := Datatypes.S (count_atoms P) in
  both_fail_or (fun v1 v2 => let '(g, d, an) := v1 in let '(h, d', an') := v2 in
                  drel (rot m) d d' /\ drel (rot m) an an' /\ PSimU (rot m) g h)
    (parser_view fo (rr_src a P b x R) {| d_lead := lead; d_after := src_after aa aP b ax aR |})
    (parser_view fo (rr_dst a P b x R) {| d_lead := []; d_after := dst_after lead aa aP b ax aR |}).
Proof.
  intros Aa Ax BP LP m. unfold parser_view. cbn [d_lead d_after]. unfold rr_src, rr_dst, src_after, dst_after.
  set (bs := option_map bchar b).
  set (g0 := add_atom ginit (clean_tok a)).
  set (h0 := {| q_atoms := [clean_tok x; clean_tok a]; q_edges := [(0, 1, bs)]; q_cur := Some 1; q_n := 2; q_pend := None;
                q_stack := [0]; q_open := []; q_ez := [] |}).
  (* the first writing up to a *)
  assert (S1 : forall rest arest, xrun fo ginit (add_descs 0 lead []) [] (a :: rest) (aa :: arest) =
            match tok_ann fo a with
            | Ok oa => xrun fo g0 (add_descs 0 (lead ++ aa) []) (put_ann 0 oa []) rest arest
            | Err e => Err e end).
  { intros rest arest. rewrite xrun_cons, ann_step_tok, (atom_step _ _ Aa). cbn [bind hd tl].
    destruct (tok_ann fo a) as [[pa|]|e]; cbn [bind put_ann]; try reflexivity; rewrite add_descs_app; reflexivity. }
  (* the second writing up to a *)
  assert (S2 : forall rest arest, xrun fo ginit (add_descs 0 [] []) [] (x :: TOpen :: bond_toks b ++ a :: rest) (ax :: [] :: bond_after b ++ (lead ++ aa) :: arest) =
            match tok_ann fo x with
            | Ok ox => match tok_ann fo a with
                       | Ok oa => xrun fo h0 (add_descs 1 (lead ++ aa) (add_descs 0 ax [])) (put_ann 1 oa (put_ann 0 ox [])) rest arest
                       | Err e => Err e end
            | Err e => Err e end).
  { intros rest arest. rewrite xrun_cons, ann_step_tok, (atom_step _ _ Ax). cbn [bind hd tl].
    destruct (tok_ann fo x) as [ox|e]; [|reflexivity].
    assert (Q : forall A0, xrun fo (add_atom ginit (clean_tok x)) (add_descs 0 ax []) A0 (TOpen :: bond_toks b ++ a :: rest) ([] :: bond_after b ++ (lead ++ aa) :: arest) =
                match tok_ann fo a with
                | Ok oa => xrun fo h0 (add_descs 1 (lead ++ aa) (add_descs 0 ax [])) (put_ann 1 oa A0) rest arest
                | Err e => Err e end).
    { intros A0. rewrite xrun_cons. cbn [gstep bind ann_step hd tl]. rewrite add_descs_nil, xrun_bond, xrun_cons, ann_step_tok, (atom_step _ _ Aa).
      cbn [bind hd tl]. destruct (tok_ann fo a) as [[pa|]|e]; cbn [bind put_ann]; try reflexivity; unfold h0, bs; destruct b; reflexivity. }
    destruct ox as [pax|]; cbn [bind put_ann]; apply Q. }
  rewrite S1, S2.
  destruct (tok_ann fo x) as [ox|ex] eqn:EX.
  2:{ destruct (tok_ann fo a) as [oa|ea]; [|exact I].
      pose proof (xrun_bad_ann fo x ex Ax EX (P ++ bond_toks b) g0 (add_descs 0 (lead ++ aa) []) (put_ann 0 oa []) (aP ++ bond_after b) ax R aR
                   ltac:(rewrite !app_length, LP; destruct b; reflexivity)) as E.
      rewrite <- !app_assoc in E. unfold both_fail_or. destruct (xrun fo g0 _ _ _ _); [contradiction|exact I]. }
  destruct (tok_ann fo a) as [oa|ea]; [|exact I].
  (* the groups P *)
  set (d0 := add_descs 0 (lead ++ aa) []). set (d0' := add_descs 1 (lead ++ aa) (add_descs 0 ax [])).
  set (a0 := put_ann 0 oa []). set (a0' := put_ann 1 oa (put_ann 0 ox [])).
  assert (SI : forall p q : nat, Datatypes.S p = Datatypes.S q -> p = q) by (intros p q E; injection E; auto).
  assert (RS0 : RSim (clean_tok x) bs g0 h0) by (constructor; reflexivity).
  assert (BI0 : BInv 0 false 0 g0) by (constructor; cbn; auto; try (eexists; reflexivity); intros; lia).
  assert (D0 : drel Datatypes.S d0 d0').
  { unfold d0, d0'. apply (drel_add_descs Datatypes.S SI 0). intros i. rewrite nd_get_add_descs_other by discriminate. reflexivity. }
  assert (A0 : drel Datatypes.S a0 a0').
  { unfold a0, a0'. assert (B0 : drel Datatypes.S (@nil (nat * attrs)) (put_ann 0 ox [])).
    { intros i. destruct ox; cbn [put_ann]; [rewrite nd_get_update_other by discriminate|]; reflexivity. }
    destruct oa; cbn [put_ann]; [apply (drel_update Datatypes.S SI 0); exact B0|exact B0]. }
  rewrite (xrun_app fo P g0 d0 a0 (bond_toks b ++ x :: R) aP (bond_after b ++ ax :: aR) LP).
  rewrite (xrun_app fo P h0 d0' a0' (TClose :: R) aP ([] :: aR) LP).
  pose proof (xrun_rsim (clean_tok x) bs 0 fo P aP false 0 g0 h0 d0 d0' a0 a0' BP RS0 BI0 D0 A0) as XR.
  pose proof (xrun_kbound fo P aP g0 d0 a0) as KB.
  unfold xrrel in XR.
  destruct (xrun fo g0 d0 a0 P aP) as [[[gP dP] anP]|e1] eqn:EP, (xrun fo h0 d0' a0' P aP) as [[[hP dP'] anP']|e1'] eqn:EP';
    cbn [bind]; try contradiction; [|exact I].
  destruct XR as [RSP [BIP [DP [AP [DP0 AP0]]]]].
  assert (GI0 : GInv g0) by (apply add_atom_ginv, ginit_inv).
  destruct (KB gP dP anP GI0 ltac:(cbn; eauto)) as [KD KA]; [| |reflexivity|].
  { unfold d0. intros i Li. cbn in Li. rewrite nd_get_add_descs_other by lia. reflexivity. }
  { unfold a0. intros i Li. cbn in Li. destruct oa; cbn [put_ann]; [rewrite nd_get_update_other by lia|]; reflexivity. }
  pose proof (xrun_grun fo _ _ _ _ _ _ _ _ EP) as GP. pose proof (xrun_grun fo _ _ _ _ _ _ _ _ EP') as GP'.
  assert (M : q_n gP = m) by (rewrite (grun_qn _ _ _ _ GP); reflexivity).
  destruct BIP as [LS [cP CP] ZP _ PP].
  assert (C0 : q_cur gP = Some 0) by (apply ZP; reflexivity).
  assert (ST0 : q_stack gP = []) by (destruct (q_stack gP); [reflexivity|discriminate LS]).
  assert (P0 : q_pend gP = None) by (apply PP; reflexivity).
  (* the junction: [b] x in the first writing, ")" in the second *)
  rewrite xrun_bond, xrun_cons, ann_step_tok, EX, (atom_step _ _ Ax). cbn [bind hd tl].
  rewrite xrun_cons. cbn [gstep bind ann_step hd tl]. rewrite add_descs_nil.
  set (gb := match b with
             | Some s => {| q_atoms := q_atoms gP; q_edges := q_edges gP; q_cur := q_cur gP; q_n := q_n gP; q_pend := Some (bchar s);
                            q_stack := q_stack gP; q_open := q_open gP; q_ez := q_ez gP |}
             | None => gP end).
  set (g1 := add_atom gb (clean_tok x)).
  set (h1 := {| q_atoms := q_atoms hP; q_edges := q_edges hP; q_cur := match q_stack hP with a1 :: _ => Some a1 | [] => q_cur hP end;
                q_n := q_n hP; q_pend := q_pend hP; q_stack := tl (q_stack hP); q_open := q_open hP; q_ez := q_ez hP |}).
  assert (QB : q_n gb = m /\ q_cur gb = Some 0) by (unfold gb; destruct b; cbn; auto).
  destruct QB as [QBn QBc].
  assert (CI1 : cur_idx g1 = m) by (unfold g1, cur_idx, add_atom; cbn; exact QBn).
  rewrite CI1, QBn.
  (* the permutation simulation of the two prefixes *)
  assert (PS1 : PSimU (rot m) g1 h1 /\ q_n g1 = Datatypes.S m).
  { pose proof (reroot_prefix a P b x Aa Ax BP) as RP. cbv zeta in RP. fold m in RP.
    assert (E1 : grun false ginit (a :: P ++ bond_toks b ++ [x]) = Ok g1).
    { cbn [grun]. rewrite (atom_step _ _ Aa). cbn [bind]. fold g0. rewrite (grun_app_ok false g0 P _ gP GP), grun_app, bond_toks_run. cbn [bind grun].
      rewrite (atom_step _ _ Ax). reflexivity. }
    assert (E2 : grun false ginit (x :: TOpen :: bond_toks b ++ a :: P ++ [TClose]) = Ok h1).
    { cbn [grun]. rewrite (atom_step _ _ Ax). cbn [bind gstep]. rewrite grun_app, bond_toks_run. cbn [bind grun]. rewrite (atom_step _ _ Aa). cbn [bind].
      assert (EH : add_atom match b with
                            | Some s => {| q_atoms := [clean_tok x]; q_edges := []; q_cur := Some 0; q_n := 1; q_pend := Some (bchar s);
                                           q_stack := [0]; q_open := []; q_ez := [] |}
                            | None => {| q_atoms := [clean_tok x]; q_edges := []; q_cur := Some 0; q_n := 1; q_pend := None;
                                         q_stack := [0]; q_open := []; q_ez := [] |} end (clean_tok a) = h0) by (unfold h0, bs; destruct b; reflexivity).
      cbn [add_atom ginit q_atoms q_edges q_cur q_n q_pend q_stack q_open q_ez app] in EH |- *. rewrite EH.
      rewrite (grun_app_ok false h0 P _ hP GP'). reflexivity. }
    rewrite E1, E2 in RP. exact RP. }
  destruct PS1 as [PS1 N1].
  set (d1 := add_descs m ax dP). set (a1 := put_ann m ox anP).
  assert (AE : match ox with Some pa => Ok (nd_update m pa anP) | None => Ok anP end = Ok a1) by (unfold a1; destruct ox; reflexivity).
  rewrite AE. cbn [bind].
  assert (XS1 : XS (rot m) g1 h1 d1 dP' a1 anP').
  { constructor; [exact PS1|unfold g1; cbn; eauto| |].
    - intros i. unfold d1. destruct (Nat.lt_trichotomy i m) as [Li|[->|Li]].
      + rewrite rot_lt by exact Li. rewrite (DP i), nd_get_add_descs_other by lia. reflexivity.
      + rewrite rot_m, DP0. unfold d0'. rewrite nd_get_add_descs_other by discriminate. rewrite !nd_get_add_descs_same.
        rewrite (KD m ltac:(lia)). reflexivity.
      + assert (RI : rot m i = i) by (unfold rot; destruct (Nat.ltb_spec i m); [lia|]; destruct (Nat.eqb_spec i m); [lia|reflexivity]).
        rewrite RI, nd_get_add_descs_other by lia. rewrite (KD i ltac:(lia)).
        destruct i as [|j]; [lia|]. rewrite (DP j). apply KD. lia.
    - intros i. unfold a1. destruct (Nat.lt_trichotomy i m) as [Li|[->|Li]].
      + rewrite rot_lt by exact Li. rewrite (AP i). destruct ox; cbn [put_ann]; [rewrite nd_get_update_other by lia|]; reflexivity.
      + rewrite rot_m, AP0. unfold a0'. destruct oa; cbn [put_ann]; [rewrite nd_get_update_other by discriminate|];
          (destruct ox; cbn [put_ann]; [rewrite !nd_get_update, !Nat.eqb_refl, (KA m ltac:(lia)); reflexivity|rewrite (KA m ltac:(lia)); reflexivity]).
      + assert (RI : rot m i = i) by (unfold rot; destruct (Nat.ltb_spec i m); [lia|]; destruct (Nat.eqb_spec i m); [lia|reflexivity]).
        rewrite RI. assert (NA : nd_get i (put_ann m ox anP) = None) by (destruct ox; cbn [put_ann]; [rewrite nd_get_update_other by lia|]; apply KA; lia).
        rewrite NA. destruct i as [|j]; [lia|]. rewrite (AP j). apply KA. lia. }
  pose proof (xrun_psimu (rot m) fo R aR g1 h1 d1 dP' a1 anP' ltac:(rewrite N1; apply rot_ok) XS1) as XR.
  unfold xrel in XR. fold g1 h1. unfold both_fail_or.
  destruct (xrun fo g1 d1 a1 R aR) as [[[g2 d2] a2]|e2], (xrun fo h1 dP' anP' R aR) as [[[h2 d2'] a2']|e2']; try contradiction; [|exact I].
  destruct XR as [[PS2 _ D2 A2] _]. split; [exact D2|]. split; [exact A2|exact PS2].
Qed.

(** for the strip machine: what strip_bonding_descriptors returns on the two decorated texts *)
From CGV Require Import Frag.StripFacts.
Theorem reroot_decor_strip fo a P b x R lead aa aP ax aR c1 d1 e1 a1 c2 d2 e2 a2 g pd pa h pd' pa' :
  is_atomtok a = true -> is_atomtok x = true -> blocksb false 0 P = true -> length aP = length P ->
  let src := rr_src a P b x R in let dst := rr_dst a P b x R in
  let sdc := {| d_lead := lead; d_after := src_after aa aP b ax aR |} in
  let ddc := {| d_lead := []; d_after := dst_after lead aa aP b ax aR |} in
  wf src sdc = true -> excluded src sdc = false -> wf_smiles src = true ->
  wf dst ddc = true -> excluded dst ddc = false -> wf_smiles dst = true ->
  strip_bonding_descriptors fo (render (decorate src sdc)) = Ok (c1, d1, e1, a1) ->
  strip_bonding_descriptors fo (render (decorate dst ddc)) = Ok (c2, d2, e2, a2) ->
  parser_view fo src sdc = Ok (g, pd, pa) -> parser_view fo dst ddc = Ok (h, pd', pa') ->
  drel (rot (Datatypes.S (count_atoms P))) d1 d2 /\ drel (rot (Datatypes.S (count_atoms P))) a1 a2.
Proof.
  intros Aa Ax BP LP src dst sdc ddc W1 X1 S1 W2 X2 S2 H1 H2 V1 V2.
  destruct (index_agrees fo src sdc c1 d1 e1 a1 g pd pa W1 X1 S1 H1 V1) as [-> [-> _]].
  destruct (index_agrees fo dst ddc c2 d2 e2 a2 h pd' pa' W2 X2 S2 H2 V2) as [-> [-> _]].
  pose proof (reroot_decor fo a P b x R lead aa aP ax aR Aa Ax BP LP) as RD. cbv zeta in RD. fold src dst sdc ddc in RD.
  rewrite V1, V2 in RD. cbn in RD. destruct RD as [D [A _]]. split; assumption.
Qed.

(** non-vacuity: [$]C(F[>])[!1][CH;x=S][<]O[$a]  and  [CH;x=S][<](C[$](F[>])[!1])O[$a] *)
Definition dk (k : ascii) (l : string) : desc := {| d_kind := k; d_label := S l; d_sym := None |}.
Definition dx_a := TAtom (S "C").
Definition dx_P := [TOpen; TAtom (S "F"); TClose].
Definition dx_x := TBracket (S "CH") (Some (S "x=S")).
Definition dx_R := [TAtom (S "O")].
Definition dx_lead := [dk "$" ""].
Definition dx_aP := [[]; [dk ">" ""]; [dk "!" "1"]].
Definition dx_ax := [dk "<" ""].
Definition dx_aR := [[dk "$" "a"]].
Definition dx_src := {| d_lead := dx_lead; d_after := src_after [] dx_aP None dx_ax dx_aR |}.
Definition dx_dst := {| d_lead := []; d_after := dst_after dx_lead [] dx_aP None dx_ax dx_aR |}.
Lemma decor_example :
  to_string (render (decorate (rr_src dx_a dx_P None dx_x dx_R) dx_src)) = "[$]C(F[>])[!1][CH;x=S][<]O[$a]"%string /\
  to_string (render (decorate (rr_dst dx_a dx_P None dx_x dx_R) dx_dst)) = "[CH;x=S][<](C[$](F[>])[!1])O[$a]"%string /\
  wf (rr_src dx_a dx_P None dx_x dx_R) dx_src = true /\ wf (rr_dst dx_a dx_P None dx_x dx_R) dx_dst = true /\
  (exists g d an, parser_view (fo_of_table []) (rr_src dx_a dx_P None dx_x dx_R) dx_src = Ok (g, d, an) /\
     d = [(0, [S "$1"; S "!11"]); (1, [S ">1"]); (2, [S "<1"]); (3, [S "$a1"])] /\ map fst an = [2]) /\
  (exists h d' an', parser_view (fo_of_table []) (rr_dst dx_a dx_P None dx_x dx_R) dx_dst = Ok (h, d', an') /\
     d' = [(0, [S "<1"]); (1, [S "$1"; S "!11"]); (2, [S ">1"]); (3, [S "$a1"])] /\ map fst an' = [0]) /\
  map (rot 2) [0; 1; 2; 3] = [1; 2; 0; 3].
Proof.
  repeat (split; [vm_compute; reflexivity|]). split; [|split; [|reflexivity]].
  - eexists. eexists. eexists. split; [vm_compute; reflexivity|]. split; reflexivity.
  - eexists. eexists. eexists. split; [vm_compute; reflexivity|]. split; reflexivity.
Qed.
