(** SmilesDescend: ANY start atom, computed.  [descend i w] rewrites the text w = a P T so that the first atom of
    the i-th branch of its first atom becomes the first atom: the tail T is written as a last branch, the i-th
    branch is exchanged with its right neighbours until it is the last one, it is written as the tail, and the
    re-rooting step is applied.  [descend_path] follows a path of such choices ([None] = into the tail, [Some i]
    = into branch i) from the first atom.  Every step checks its side conditions by computation and every result
    is a sequence of the elementary rewritings of SmilesRewrite ([rws]), so the graphs are related by the returned
    permutation.  Branch exchanges use the most general form (any ring bonds, disjoint ring numbers). *)
From Coq Require Import String.
From Coq Require Import List Ascii ZArith Bool Lia Permutation.
From CGV Require Import Base.PyBase Base.PyVal Gen.SmilesGen Frag.NDict Frag.FragText Frag.SmilesParse Frag.SmilesSpec
     Frag.SmilesProofs Frag.SmilesPerm Frag.SmilesReverse Frag.SmilesPermR Frag.SmilesPermX Frag.SmilesPermG Frag.SmilesReroot
     Frag.SmilesRewrite Frag.SmilesWf.
Import ListNotations.

Notation sigma := (nat -> nat).
Lemma rws_one w w' s : rw1 w w' s -> rws w w' (sigma_comp sid s).
Proof. intros H. eapply rws_cons; [exact H|apply rws_nil]. Qed.
Lemma rws_trans w1 w2 w3 s s' : rws w1 w2 s -> rws w2 w3 s' -> exists s'', rws w1 w3 s'' /\ forall i, s'' i = s' (s i).
Proof.
  intros H. revert w3 s'. induction H as [w|w1 w2 w3 s0 s1 H1 H2 IH]; intros w4 s' H3.
  - exists s'. split; [exact H3|reflexivity].
  - destruct (IH w4 s' H3) as [s2 [R2 E2]]. exists (sigma_comp s2 s0). split; [eapply rws_cons; eassumption|].
    intros i. unfold sigma_comp. rewrite E2. reflexivity.
Qed.

(** the elementary steps with their side conditions decided *)
Definition try_swap (x pa pb y : list tok) : option (list tok * sigma) :=
  match grun false ginit x with
  | Ok g =>
      match q_cur g, q_pend g with
      | Some c, None =>
          if is_rblock pa && is_rblock pb && disjb pa pb
          then Some (x ++ pb ++ pa ++ y, swap_sigma (q_n g) (count_atoms pa) (count_atoms pb)) else None
      | _, _ => None
      end
  | Err _ => None
  end.
Lemma try_swap_rw x pa pb y w' s : try_swap x pa pb y = Some (w', s) -> rw1 (x ++ pa ++ pb ++ y) w' s.
Proof.
  unfold try_swap. destruct (grun false ginit x) as [g|e] eqn:EG; [|discriminate].
  destruct (q_cur g) as [c|] eqn:EC; [|discriminate]. destruct (q_pend g) eqn:EP; [discriminate|].
  destruct (is_rblock pa && is_rblock pb && disjb pa pb) eqn:EB; [|discriminate]. intros H. inversion H; subst; clear H.
  apply andb_prop in EB. destruct EB as [EB D]. apply andb_prop in EB. destruct EB as [BA BB].
  apply (rw_gswap x pa pb y g c EG EC EP BA BB (disjb_sound _ _ D)).
Qed.
Definition try_paren (x0 T : list tok) : option (list tok) :=
  match grun false ginit x0 with
  | Ok g => match q_cur g with Some _ => if nonnegb 0 T then Some (x0 ++ TOpen :: T ++ [TClose]) else None | None => None end
  | Err _ => None
  end.
Lemma try_paren_rw x0 T w' : try_paren x0 T = Some w' -> rw1 (x0 ++ T) w' sid /\ w' = x0 ++ TOpen :: T ++ [TClose].
Proof.
  unfold try_paren. destruct (grun false ginit x0) as [g|e] eqn:EG; [|discriminate].
  destruct (q_cur g) as [c|] eqn:EC; [|discriminate]. destruct (nonnegb 0 T) eqn:EN; [|discriminate].
  intros H. inversion H; subst. split; [apply (rw_paren x0 T g c EG EC EN)|reflexivity].
Qed.
Lemma try_paren_unparen x0 T w' : try_paren x0 T = Some w' -> rw1 w' (x0 ++ T) sid.
Proof.
  unfold try_paren. destruct (grun false ginit x0) as [g|e] eqn:EG; [|discriminate].
  destruct (q_cur g) as [c|] eqn:EC; [|discriminate]. destruct (nonnegb 0 T) eqn:EN; [|discriminate].
  intros H. inversion H; subst. apply (rw_unparen x0 T g c EG EC EN).
Qed.
Lemma reroot1_rw w w' m : reroot1 w = Some (w', m) -> rw1 w w' (rot m).
Proof.
  unfold reroot1. destruct w as [|a rest]; [discriminate|].
  destruct (take_blocks 0 rest) as [P T] eqn:ET. pose proof (take_blocks_app _ _ _ _ ET) as ->.
  destruct (is_atomtok a && blocksb false 0 P) eqn:EC; [|discriminate]. apply andb_prop in EC. destruct EC as [Aa BP].
  assert (Q : forall b x R, is_atomtok x = true -> T = bond_toks b ++ x :: R ->
            rw1 (a :: P ++ T) (rr_dst a P b x R) (rot (Datatypes.S (count_atoms P)))).
  { intros b x R Ax ->. apply (rw_reroot a P b x R Aa Ax BP). }
  destruct T as [|t T']; [discriminate|].
  destruct t as [e|body annot|bd| | |bd mk|fw|k]; cbn [is_atomtok]; try discriminate.
  - intros H. injection H as <- <-. apply (Q None (TAtom e) T' eq_refl eq_refl).
  - intros H. injection H as <- <-. apply (Q None (TBracket body annot) T' eq_refl eq_refl).
  - destruct T' as [|x R]; [discriminate|]. destruct (is_atomtok x) eqn:Ax; [|discriminate].
    intros H. injection H as <- <-. apply (Q (Some bd) x R Ax eq_refl).
Qed.

(** the groups of a sequence of parenthesised groups *)
Fixpoint split_groups (depth : nat) (cur : list tok) (toks : list tok) : list (list tok) :=
  match toks with
  | [] => match cur with [] => [] | _ => [rev cur] end
  | t :: r =>
      match t, depth with
      | TOpen, _ => split_groups (Datatypes.S depth) (t :: cur) r
      | TClose, 1 => rev (t :: cur) :: split_groups 0 [] r
      | TClose, Datatypes.S d => split_groups d (t :: cur) r
      | _, _ => split_groups depth (t :: cur) r
      end
  end.
Lemma split_groups_concat : forall toks depth cur, concat (split_groups depth cur toks) = rev cur ++ toks.
Proof.
  induction toks as [|t r IH]; intros depth cur; cbn [split_groups].
  - destruct cur; cbn; [reflexivity|]. rewrite !app_nil_r. reflexivity.
  - assert (G : concat (split_groups depth (t :: cur) r) = rev cur ++ t :: r).
    { rewrite IH. cbn [rev]. rewrite <- app_assoc. reflexivity. }
    destruct t; try exact G.
    + rewrite IH. cbn [rev]. rewrite <- app_assoc. reflexivity.
    + destruct depth as [|[|d]]; try exact G.
      * cbn [concat]. rewrite IH. cbn [rev app]. rewrite <- app_assoc. reflexivity.
      * rewrite IH. cbn [rev]. rewrite <- app_assoc. reflexivity.
Qed.

(** the group [pa] moves to the right over the groups [qs] *)
Fixpoint bubble (x pa : list tok) (qs : list (list tok)) (y : list tok) : option (list tok * sigma) :=
  match qs with
  | [] => Some (x ++ pa ++ y, sid)
  | q :: r =>
      match try_swap x pa q (concat r ++ y) with
      | Some (_, s1) =>
          match bubble (x ++ q) pa r y with
          | Some (w2, s2) => Some (w2, sigma_comp s2 s1)
          | None => None
          end
      | None => None
      end
  end.
Lemma bubble_rws : forall qs x pa y w' s, bubble x pa qs y = Some (w', s) ->
  rws (x ++ pa ++ concat qs ++ y) w' s /\ w' = x ++ concat qs ++ pa ++ y.
Proof.
  induction qs as [|q r IH]; intros x pa y w' s H; cbn [bubble] in H.
  - inversion H; subst. cbn [concat app]. split; [apply rws_nil|reflexivity].
  - destruct (try_swap x pa q (concat r ++ y)) as [[w1 s1]|] eqn:E1; [|discriminate H].
    destruct (bubble (x ++ q) pa r y) as [[w2 s2]|] eqn:E2; [|discriminate H]. inversion H; subst; clear H.
    pose proof (try_swap_rw _ _ _ _ _ _ E1) as R1.
    assert (W1 : w1 = (x ++ q) ++ pa ++ concat r ++ y).
    { unfold try_swap in E1. destruct (grun false ginit x) as [g|e]; [|discriminate]. destruct (q_cur g); [|discriminate]. destruct (q_pend g); [discriminate|].
      destruct (is_rblock pa && is_rblock q && disjb pa q); [|discriminate]. inversion E1. rewrite <- !app_assoc. reflexivity. }
    destruct (IH (x ++ q) pa y w' s2 E2) as [R2 ->]. split.
    + cbn [concat]. rewrite <- (app_assoc q (concat r) y). eapply rws_cons; [exact R1|]. rewrite W1. exact R2.
    + cbn [concat]. rewrite <- !app_assoc. reflexivity.
Qed.

(** into the i-th branch of the first atom *)
Definition descend (i : nat) (w : list tok) : option (list tok * sigma) :=
  match w with
  | a :: rest =>
      let '(P, T) := take_blocks 0 rest in
      let groups := split_groups 0 [] P in
      match nth_error groups i with
      | Some pa =>
          let before := concat (firstn i groups) in
          let after := skipn (Datatypes.S i) groups in
          let tailg := match T with [] => [] | _ => [TOpen :: T ++ [TClose]] end in
          match (match T with [] => Some w | _ => try_paren (a :: P) T end) with
          | Some _ =>
              match bubble (a :: before) pa (after ++ tailg) [] with
              | Some (_, s1) =>
                  let inner := removelast (tl pa) in
                  let x0 := a :: before ++ concat (after ++ tailg) in
                  match try_paren x0 inner with
                  | Some w2 =>
                      if groupb pa then
                        match reroot1 (x0 ++ inner) with
                        | Some (w3, m) => Some (w3, sigma_comp (rot m) s1)
                        | None => None
                        end
                      else None
                  | None => None
                  end
              | None => None
              end
          | None => None
          end
      | None => None
      end
  | [] => None
  end.

Lemma closes_last : forall r k, closesb k r = true -> r = removelast r ++ [TClose].
Proof.
  induction r as [|t r IH]; intros k H; [discriminate H|].
  assert (G : forall k', closesb k' r = true -> t :: r = removelast (t :: r) ++ [TClose]).
  { intros k' H'. pose proof (IH k' H') as E. destruct r as [|t' r']; [discriminate H'|]. cbn [removelast] in *. cbn [app]. f_equal. exact E. }
  destruct t; cbn [closesb] in H; try (apply (G k H)).
  - apply (G _ H).
  - destruct k as [|[|k]]; [discriminate H| |apply (G _ H)]. destruct r; [reflexivity|discriminate H].
Qed.
Lemma group_shape pa : groupb pa = true -> pa = TOpen :: removelast (tl pa) ++ [TClose].
Proof.
  destruct pa as [|t r]; [discriminate|]. destruct t; try discriminate. cbn [groupb tl]. intros H. f_equal. apply (closes_last r 1 H).
Qed.
Lemma nth_split {A} (l : list A) i x : nth_error l i = Some x -> l = firstn i l ++ x :: skipn (Datatypes.S i) l.
Proof.
  revert i. induction l as [|a l IH]; intros [|i] H; try discriminate H; cbn in *.
  - inversion H. reflexivity.
  - f_equal. apply IH. exact H.
Qed.

Theorem descend_rws i w w' s : descend i w = Some (w', s) -> exists s', rws w w' s' /\ forall k, s' k = s k.
Proof.
  unfold descend. destruct w as [|a rest]; [discriminate|].
  destruct (take_blocks 0 rest) as [P T] eqn:ET. pose proof (take_blocks_app _ _ _ _ ET) as ->.
  set (groups := split_groups 0 [] P).
  destruct (nth_error groups i) as [pa|] eqn:EN; [|discriminate].
  set (before := concat (firstn i groups)). set (after := skipn (Datatypes.S i) groups).
  set (tailg := match T with [] => [] | _ => [TOpen :: T ++ [TClose]] end).
  assert (PG : P = before ++ pa ++ concat after).
  { pose proof (split_groups_concat P 0 []) as C. cbn [rev app] in C. fold groups in C. rewrite <- C.
    rewrite (nth_split groups i pa EN) at 1. rewrite concat_app. cbn [concat]. reflexivity. }
  (* step 1: the tail as last branch *)
  assert (S1 : (match T with [] => Some (a :: P ++ T) | _ => try_paren (a :: P) T end) <> None ->
               exists s1, rws (a :: P ++ T) ((a :: before) ++ pa ++ concat (after ++ tailg) ++ []) s1 /\ forall k, s1 k = k).
  { intros NN. destruct T as [|t0 T0].
    - exists sid. unfold tailg. rewrite !app_nil_r, PG. split; [|reflexivity]. cbn [app]. rewrite <- ?app_assoc. apply rws_nil.
    - destruct (try_paren (a :: P) (t0 :: T0)) as [w1|] eqn:E1; [|exfalso; apply NN; reflexivity].
      destruct (try_paren_rw _ _ _ E1) as [R1 ->]. exists (sigma_comp sid sid). split; [|reflexivity].
      replace ((a :: before) ++ pa ++ concat (after ++ tailg) ++ []) with ((a :: P) ++ TOpen :: (t0 :: T0) ++ [TClose]).
      + apply rws_one. exact R1.
      + unfold tailg. rewrite concat_app. cbn [concat]. rewrite !app_nil_r, PG. cbn [app]. rewrite <- !app_assoc. reflexivity. }
  destruct (match T with [] => Some (a :: P ++ T) | _ => try_paren (a :: P) T end) as [w0|] eqn:E0; [|discriminate].
  destruct (S1 ltac:(discriminate)) as [s1 [R1 I1]].
  destruct (bubble (a :: before) pa (after ++ tailg) []) as [[wb sb]|] eqn:EB; [|discriminate].
  destruct (bubble_rws _ _ _ _ _ _ EB) as [R2 ->].
  set (inner := removelast (tl pa)). set (x0 := a :: before ++ concat (after ++ tailg)).
  destruct (try_paren x0 inner) as [w2|] eqn:E2; [|discriminate].
  destruct (groupb pa) eqn:GP; [|discriminate].
  destruct (reroot1 (x0 ++ inner)) as [[w3 m]|] eqn:E3; [|discriminate]. intros H. inversion H; subst w3 s; clear H.
  pose proof (try_paren_unparen _ _ _ E2) as R3. destruct (try_paren_rw _ _ _ E2) as [_ W2].
  assert (EQ : (a :: before) ++ concat (after ++ tailg) ++ pa ++ [] = w2).
  { rewrite W2. unfold x0. rewrite (group_shape pa GP) at 1. fold inner. cbn [app]. rewrite <- !app_assoc. cbn [app]. rewrite ?app_nil_r. reflexivity. }
  rewrite EQ in R2.
  pose proof (reroot1_rw _ _ _ E3) as R4.
  destruct (rws_trans _ _ _ _ _ R1 R2) as [s12 [R12 I12]].
  destruct (rws_trans _ _ _ _ _ R12 (rws_one _ _ _ R3)) as [s123 [R123 I123]].
  destruct (rws_trans _ _ _ _ _ R123 (rws_one _ _ _ R4)) as [s4 [R1234 I4]].
  exists s4. split; [exact R1234|]. intros k. rewrite I4, I123, I12, I1. unfold sigma_comp, sid. reflexivity.
Qed.

(** a path from the first atom: [None] = the next atom of the tail, [Some i] = the first atom of branch i *)
Fixpoint descend_path (path : list (option nat)) (w : list tok) : option (list tok * sigma) :=
  match path with
  | [] => Some (w, sid)
  | st :: r =>
      match (match st with None => match reroot1 w with Some (w1, m) => Some (w1, rot m) | None => None end
                         | Some i => descend i w end) with
      | Some (w1, s1) => match descend_path r w1 with Some (w2, s2) => Some (w2, sigma_comp s2 s1) | None => None end
      | None => None
      end
  end.
Theorem descend_path_rws : forall path w w' s, descend_path path w = Some (w', s) ->
  exists s', rws w w' s' /\ forall k, s' k = s k.
Proof.
  induction path as [|st r IH]; intros w w' s H; cbn [descend_path] in H.
  - inversion H; subst. exists sid. split; [apply rws_nil|reflexivity].
  - assert (ST : forall w1 s1, (match st with None => match reroot1 w with Some (w1, m) => Some (w1, rot m) | None => None end
                                           | Some i => descend i w end) = Some (w1, s1) ->
                  exists s1', rws w w1 s1' /\ forall k, s1' k = s1 k).
    { intros w1 s1 E. destruct st as [i|].
      - apply (descend_rws i w w1 s1 E).
      - destruct (reroot1 w) as [[w1' m]|] eqn:E1; [|discriminate E]. inversion E; subst.
        exists (sigma_comp sid (rot m)). split; [apply rws_one, reroot1_rw; exact E1|reflexivity]. }
    destruct (match st with None => match reroot1 w with Some (w1, m) => Some (w1, rot m) | None => None end | Some i => descend i w end)
      as [[w1 s1]|]; [|discriminate H].
    destruct (descend_path r w1) as [[w2 s2]|] eqn:E2; [|discriminate H]. inversion H; subst; clear H.
    destruct (ST w1 s1 eq_refl) as [s1' [R1 I1]]. destruct (IH w1 w' s2 E2) as [s2' [R2 I2]].
    destruct (rws_trans _ _ _ _ _ R1 R2) as [s12 [R12 I12]]. exists s12. split; [exact R12|].
    intros k. rewrite I12, I2, I1. reflexivity.
Qed.
Lemma graphs_rel_ext s s' r1 r2 : (forall k, s k = s' k) -> graphs_rel s r1 r2 -> graphs_rel s' r1 r2.
Proof.
  intros E. unfold graphs_rel. destruct r1 as [G|e1], r2 as [H|e2]; auto. intros [n [[L1 [L2 [A [P Z]]]] [I [B F]]]]. exists n. split.
  - repeat split; auto.
    + intros i Li. rewrite <- E. apply A. exact Li.
    + erewrite (map_ext (emapv s') (emapv s)); [exact P|]. intros [[u v] o]. cbn. rewrite !E. reflexivity.
  - repeat split.
    + intros x y H0. apply I. rewrite !E. exact H0.
    + intros i Li. rewrite <- E. apply B. exact Li.
    + intros i Li. rewrite <- E. apply F. exact Li.
Qed.
Theorem descend_path_sound path w w' s : descend_path path w = Some (w', s) ->
  graphs_rel s (graph_of false w) (graph_of false w').
Proof.
  intros H. destruct (descend_path_rws path w w' s H) as [s' [R I]]. apply (graphs_rel_ext s' s _ _ I). apply rws_sound. exact R.
Qed.

(** non-vacuity: CC(F)(C(Cl)=O)N[NH3+] written from its Cl (into the tail, then branch 2, then branch 1) *)
Definition ds_w : list tok :=
  [TAtom (S "C"); TAtom (S "C"); TOpen; TAtom (S "F"); TClose; TOpen; TAtom (S "C"); TOpen; TAtom (S "Cl"); TClose; TBond BDouble; TAtom (S "O"); TClose;
   TAtom (S "N"); TBracket (S "NH3+") None].
Lemma descend_example :
  to_string (render_smiles false ds_w) = "CC(F)(C(Cl)=O)N[NH3+]"%string /\ wf_smiles ds_w = true /\
  match descend_path [None; Some 2; Some 1] ds_w with
  | Some (w3, s) =>
      to_string (render_smiles false w3) = "Cl(C(C(C)(F)(N[NH3+]))(=O))"%string /\ wf_smiles w3 = true /\
      map s [0; 1; 2; 3; 4; 5; 6; 7] = [3; 2; 4; 1; 0; 7; 5; 6] /\
      exists G H, graph_of false ds_w = Ok G /\ graph_of false w3 = Ok H /\
        g_edges G = [(0, 1, VInt 1); (1, 2, VInt 1); (1, 3, VInt 1); (3, 4, VInt 1); (3, 5, VInt 2); (1, 6, VInt 1); (6, 7, VInt 1)] /\
        g_edges H = [(0, 1, VInt 1); (1, 2, VInt 1); (2, 3, VInt 1); (2, 4, VInt 1); (2, 5, VInt 1); (5, 6, VInt 1); (1, 7, VInt 2)]
  | None => False
  end /\ descend 3 ds_w = None.
Proof.
  split; [vm_compute; reflexivity|]. split; [vm_compute; reflexivity|]. split; [|vm_compute; reflexivity].
  vm_compute. repeat split. eexists. eexists. repeat split.
Qed.
