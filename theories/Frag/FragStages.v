(** FragStages: the theorem of FragProofs.v specialised to sub-grammars, each usable on its own:
    (a) unbranched chains of organic atoms and bonds, (b) + branches, (c) + ring-bond markers,
    (d) + bracket atoms with annotations and slash marks (all atomistic fragments), (e) coarse
    fragments.  None of them contains a multiplier, so nothing is excluded. *)
From Coq Require Import String.
From Coq Require Import List Ascii ZArith Bool Lia.
From CGV Require Import Base.PyBase Base.PyVal Dialect.DialectImpl Frag.NDict Frag.StripImpl Frag.FragText Frag.FragProofs.
Import ListNotations.

Definition stage_a (t : tok) : bool := match t with TAtom _ | TBond _ => true | _ => false end.
Definition stage_b (t : tok) : bool := match t with TAtom _ | TBond _ | TOpen | TClose => true | _ => false end.
Definition stage_c (t : tok) : bool := match t with TAtom _ | TBond _ | TOpen | TClose | TRing _ _ => true | _ => false end.
Definition is_coarse_body (b : pystr) : bool := match b with c :: _ => Ascii.eqb c "#"%char | [] => false end.
Definition stage_d (t : tok) : bool :=
  match t with TMult _ => false | TBracket b _ => negb (is_coarse_body b) | _ => true end.
Definition stage_e (t : tok) : bool :=
  match t with TBracket b _ => is_coarse_body b | TBond _ | TOpen | TClose | TRing _ _ => true | _ => false end.

Definition item_toks_in (P : tok -> bool) (items : list ditem) : bool :=
  forallb (fun i => match i with ITok t => P t | _ => true end) items.
Lemma interleave_in P : forall toks after, forallb P toks = true -> item_toks_in P (interleave toks after) = true.
Proof.
  induction toks as [|t r IH]; intros after H; [reflexivity|]. cbn in H. apply andb_prop in H. destruct H as [H1 H2].
  cbn [interleave]. unfold item_toks_in. cbn [forallb]. rewrite H1. cbn [andb]. rewrite forallb_app.
  apply andb_true_intro. split; [|apply IH; assumption].
  apply forallb_forall. intros x I. apply in_map_iff in I. destruct I as [d [<- _]]. reflexivity.
Qed.
Lemma decorate_in P toks dc : forallb P toks = true -> item_toks_in P (decorate toks dc) = true.
Proof.
  intros H. unfold decorate, item_toks_in. rewrite forallb_app. apply andb_true_intro. split.
  - apply forallb_forall. intros x I. apply in_map_iff in I. destruct I as [d [<- _]]. reflexivity.
  - apply interleave_in. assumption.
Qed.

Lemma no_mult P : (forall n, P (TMult n) = false) -> forall items, item_toks_in P items = true -> has_mult items = false.
Proof.
  intros NP. induction items as [|i r IH]; [reflexivity|]. unfold item_toks_in. cbn [forallb]. intros H.
  apply andb_prop in H. destruct H as [H1 H2]. specialize (IH H2). unfold has_mult in *. cbn [existsb]. rewrite IH, orb_false_r.
  destruct i as [d|t|d]; try reflexivity. destruct t; try reflexivity. rewrite NP in H1. discriminate H1.
Qed.
(** without multipliers nothing is excluded *)
Lemma stage_any fo P toks dc :
  (forall n, P (TMult n) = false) -> forallb P toks = true -> wf toks dc = true ->
  strip_bonding_descriptors fo (render (decorate toks dc)) = strip_spec fo toks dc.
Proof.
  intros NM H W. apply strip_correct; [assumption|].
  unfold excluded, excluded_items, class_of.
  rewrite (no_mult P NM _ (decorate_in P toks dc H)). reflexivity.
Qed.

Lemma strip_chains fo toks dc : forallb stage_a toks = true -> wf toks dc = true ->
  strip_bonding_descriptors fo (render (decorate toks dc)) = strip_spec fo toks dc.
Proof. apply (stage_any fo stage_a); reflexivity. Qed.
Lemma strip_branches fo toks dc : forallb stage_b toks = true -> wf toks dc = true ->
  strip_bonding_descriptors fo (render (decorate toks dc)) = strip_spec fo toks dc.
Proof. apply (stage_any fo stage_b); reflexivity. Qed.
Lemma strip_rings fo toks dc : forallb stage_c toks = true -> wf toks dc = true ->
  strip_bonding_descriptors fo (render (decorate toks dc)) = strip_spec fo toks dc.
Proof. apply (stage_any fo stage_c); reflexivity. Qed.
Lemma strip_atomistic fo toks dc : forallb stage_d toks = true -> wf toks dc = true ->
  strip_bonding_descriptors fo (render (decorate toks dc)) = strip_spec fo toks dc.
Proof. apply (stage_any fo stage_d); reflexivity. Qed.
Lemma strip_coarse fo toks dc : forallb stage_e toks = true -> wf toks dc = true ->
  strip_bonding_descriptors fo (render (decorate toks dc)) = strip_spec fo toks dc.
Proof. apply (stage_any fo stage_e); reflexivity. Qed.

(** non-vacuity: one input per stage inside its domain and outside the defect classes *)
Definition mkd' (k : ascii) (l : pystr) (s : option bsym) : desc := {| d_kind := k; d_label := l; d_sym := s |}.
Definition C' := TAtom (S "C").
(** [$]=C-[$a]=CCl[<] *)
Definition ex_a_toks := [C'; TBond BDouble; C'; TAtom (S "Cl")].
Definition ex_a_dc := {| d_lead := [mkd' "$" [] (Some BDouble)]; d_after := [[mkd' "$" (S "a") (Some BSingle)]; []; []; [mkd' "<" [] None]] |}.
(** C(C[$1])[$2]=CC(=O)#[!] *)
Definition ex_b_toks := [C'; TOpen; C'; TClose; TBond BDouble; C'; C'; TOpen; TBond BDouble; TAtom (S "O"); TClose].
Definition ex_b_dc := {| d_lead := []; d_after := [[]; []; [mkd' "$" (S "1") None]; [mkd' "$" (S "2") None]; []; []; []; []; []; [];
                                                  [mkd' "!" [] (Some BTriple)]] |}.
(** C1[$]C=%12[>]CC1.[!]%12[<] : a descriptor without symbol after a ring marker with symbol, an order-0 symbol *)
Definition ex_c_toks := [C'; TRing None (S "1"); C'; TRing (Some BDouble) (S "%12"); C'; C'; TRing None (S "1"); TRing None (S "%12")].
Definition ex_c_dc := {| d_lead := []; d_after := [[]; [mkd' "$" [] None]; []; [mkd' ">" [] None]; []; []; [mkd' "!" [] (Some BZero)]; [mkd' "<" [] None]] |}.
(** [>]F/C=C(\[Si;x=R;0.5][$])[NH3+]=[<] *)
Definition ex_d_toks := [TAtom (S "F"); TSlash true; C'; TBond BDouble; C'; TOpen; TSlash false; TBracket (S "Si") (Some (S "x=R")); TClose;
                         TBracket (S "NH3+") None].
Definition ex_d_dc := {| d_lead := [mkd' ">" [] None]; d_after := [[]; []; []; []; []; []; []; [mkd' "$" [] None]; []; [mkd' "<" [] (Some BDouble)]] |}.
(** [$][#TC4]1([#OT1;r=abc][>])=[#CD1]1[$]  *)
Definition ex_e_toks := [TBracket (S "#TC4") None; TRing None (S "1"); TOpen; TBracket (S "#OT1") (Some (S "r=abc")); TClose; TBond BDouble;
                         TBracket (S "#CD1") None; TRing None (S "1")].
Definition ex_e_dc := {| d_lead := [mkd' "$" [] None]; d_after := [[]; []; []; [mkd' ">" [] None]; []; []; []; [mkd' "$" [] None]] |}.
Definition in_stage (P : tok -> bool) (toks : list tok) (dc : decor) : bool :=
  forallb P toks && wf toks dc && negb (excluded toks dc) &&
  existsb (fun l => match l with [] => false | _ => true end) (d_after dc).
Lemma stages_nonvacuous :
  in_stage stage_a ex_a_toks ex_a_dc = true /\ in_stage stage_b ex_b_toks ex_b_dc = true /\
  in_stage stage_c ex_c_toks ex_c_dc = true /\ in_stage stage_d ex_d_toks ex_d_dc = true /\
  in_stage stage_e ex_e_toks ex_e_dc = true.
Proof. repeat split; vm_compute; reflexivity. Qed.
