(** Template: what fragment_iter (all_atom=True) builds from one fragment text, up to the point the
    two machine models reach: strip_bonding_descriptors (StripImpl.v), then pysmiles' read_smiles on
    the clean text up to the bond orders (SmilesParse.v), then the attribute setting of
    pysmiles_utils.read_fragment_smiles (fragname, fragid, weight defaults; `bonding` from the
    descriptor dict; the annotation dicts; networkx.set_node_attributes ignores keys that are not
    nodes).  NOT modelled (after this point in the code): pysmiles' hydrogen completion and the
    removal of the explicit hydrogens again, which add / remove hydrogen nodes and rewrite `hcount`
    but do not renumber the atoms written in the text nor touch the bonds between them, and the
    E/Z / chirality post-processing.  No proofs here. *)
From Coq Require Import String.
From Coq Require Import List Ascii ZArith Bool.
From CGV Require Import Base.PyBase Base.PyVal Dialect.DialectImpl Frag.NDict Frag.StripImpl Frag.SmilesParse.
Import ListNotations.

Record tmpl := { t_nodes : list attrs; t_edges : list (nat * nat * pyval) }.

(** node attributes: parse_atom's, then fragname / fragid / weight, then bonding, then the annotations *)
Definition template_node (name : pystr) (base : attrs) (descs : option (list pystr)) (ann : option attrs) : attrs :=
  let a0 := aset (S "weight") (VInt 1) (aset (S "fragid") (VInt 0) (aset (S "fragname") (VStr name) base)) in
  let a1 := match descs with Some ds => aset (S "bonding") (VList (map VStr ds)) a0 | None => a0 end in
  match ann with Some an => aupdate a1 an | None => a1 end.
Definition assemble (name : pystr) (G : sgraph) (d : ndict (list pystr)) (a : ndict attrs) : tmpl :=
  {| t_nodes := map (fun ib => template_node name (snd ib) (nd_get (fst ib) d) (nd_get (fst ib) a))
                    (combine (seq 0 (length (g_nodes G))) (g_nodes G));
     t_edges := g_edges G |}.
Definition fragment_template (fo : float_oracle) (name : pystr) (frag_smile : pystr) : res tmpl :=
  '(clean, d, _, a) <- strip_bonding_descriptors fo frag_smile ;;
  let smiles_str := if str_eqb clean (S "H") then S "[H]" else clean in     (* "You define an H fragment" *)
  G <- smiles_parse smiles_str ;;
  Ok (assemble name G d a).
