(** SmilesProofs: [render_parse] — on every well-formed atomistic token list the character machine
    that models pysmiles' tokenizer + base_smiles_parser (+ parse_atom, bond orders) returns the
    token-level graph [graph_of].  Same shape as FragProofs.v: the machine is between two tokens
    ([ppend]), resolving its pending look-ahead ([pflush]) gives exactly the state [pmk PTop g] built
    from the specification state [g] (atoms so far, current atom, branch stack, pending bond symbol,
    open-ring table, slash marks). *)
From Coq Require Import String.
From Coq Require Import List Ascii ZArith Bool Lia.
From CGV Require Import Base.PyBase Base.PyVal Gen.SmilesGen Frag.NDict Frag.FragText Frag.SmilesParse Frag.SmilesSpec.
Import ListNotations.

Lemma prun_app s1 : forall p s2, prun p (s1 ++ s2) = (p' <- prun p s1 ;; prun p' s2).
Proof.
  induction s1 as [|c r IH]; intros p s2; cbn; [reflexivity|].
  destruct (pstep p c) as [p1|e]; cbn; [apply IH|reflexivity].
Qed.

Definition pmk (md : pmode) (g : gst) : pst :=
  {| p_mode := md; p_atoms := q_atoms g; p_edges := q_edges g; p_anchor := q_cur g; p_idx := q_n g;
     p_next_bond := q_pend g; p_branches := q_stack g; p_rings := q_open g; p_ez := q_ez g |}.
Definition ptop (g : gst) : pst := pmk PTop g.
Definition ppend (p : pst) : Prop := match p_mode p with PTop | PElem _ => True | _ => False end.
Lemma pinit_top : pinit = ptop ginit.
Proof. reflexivity. Qed.

Definition lr : pystr := S "lr".
Lemma organic2_second c0 c : organic2 c0 c = true -> char_in c lr = true.
Proof.
  unfold organic2, str_in, smiles_organic_subset. cbn. rewrite !andb_true_r, !andb_false_r, orb_false_r. cbn.
  intros H. repeat (apply orb_prop in H; destruct H as [H|H]); try discriminate H;
    apply andb_prop in H; destruct H as [_ H]; apply Ascii.eqb_eq in H; subst c; reflexivity.
Qed.
Lemma pstep_pending p c : ppend p -> pcombines p c = false -> pstep p c = ptop_step (pflush p) c.
Proof.
  unfold ppend, pstep, pflush. destruct (p_mode p); intros P H; try contradiction; try rewrite H; reflexivity.
Qed.
Lemma no_pcombine p c : ppend p -> char_in c lr = false -> pcombines p c = false.
Proof.
  intros P L. unfold pcombines. destruct (p_mode p); try reflexivity.
  destruct (organic2 c0 c) eqn:T; [|reflexivity]. apply organic2_second in T. congruence.
Qed.
Lemma penter p g c s rest :
  ppend p -> pflush p = ptop g -> char_in c lr = false ->
  prun p ((c :: s) ++ rest) = (p1 <- prun (ptop g) (c :: s) ;; prun p1 rest).
Proof.
  intros P F L. rewrite prun_app. cbn [prun]. rewrite (pstep_pending p c P (no_pcombine p c P L)), F. reflexivity.
Qed.

(** one token, started at the head of the loop *)
Definition tok_res (ks : bool) (g : gst) (t : tok) (g1 : gst) : Prop :=
  exists p1, prun (ptop g) (smiles_tok ks t) = Ok p1 /\ ppend p1 /\ pflush p1 = ptop g1.

Lemma t_atom ks g e : str_in e organic_atoms = true -> (q_cur g = None -> q_pend g = None) ->
  tok_res ks g (TAtom e) (add_atom g e).
Proof.
  intros H NP. unfold str_in, organic_atoms in H. cbn [existsb] in H.
  assert (X : forall text, on_atom (pmk (p_mode (ptop g)) g) text = ptop (add_atom g text) /\
                           forall md, on_atom (pmk md g) text = ptop (add_atom g text)).
  { intros text. unfold on_atom, ptop, pmk, add_atom. cbn. destruct (q_cur g) eqn:E; [split; reflexivity|].
    rewrite (NP eq_refl). split; reflexivity. }
  repeat (apply orb_prop in H; destruct H as [H|H]); try discriminate H;
    apply str_eqb_eq in H; subst e;
    (eexists; split; [reflexivity|split; [exact I|]]); unfold pflush; cbn [p_mode pset_mode ptop pmk];
    try (apply X); apply (proj2 (X _)).
Qed.

Lemma on_atom_pmk md g text : (q_cur g = None -> q_pend g = None) -> on_atom (pmk md g) text = ptop (add_atom g text).
Proof.
  intros NP. unfold on_atom, ptop, pmk, add_atom. cbn. destruct (q_cur g) eqn:E; [reflexivity|].
  rewrite (NP eq_refl). reflexivity.
Qed.
Lemma prun_bracket g : forall body tokacc, forallb (fun c => negb (is_rbr c)) body = true ->
  prun (pmk (PBracket tokacc) g) body = Ok (pmk (PBracket (tokacc ++ body)) g).
Proof.
  induction body as [|c r IH]; intros acc H; cbn.
  - now rewrite app_nil_r.
  - cbn in H. apply andb_prop in H. destruct H as [H1 H2]. unfold is_rbr in H1.
    unfold pstep. cbn [p_mode pmk]. destruct (Ascii.eqb c "]"%char); [discriminate|]. cbn [bind].
    change (pset_mode (pmk (PBracket acc) g) (PBracket (acc ++ [c]))) with (pmk (PBracket (acc ++ [c])) g).
    rewrite IH by assumption. now rewrite <- app_assoc.
Qed.
Lemma t_bracket ks g body annot : forallb (fun c => negb (is_rbr c)) body = true -> (q_cur g = None -> q_pend g = None) ->
  tok_res ks g (TBracket body annot) (add_atom g (clean_tok (TBracket body annot))).
Proof.
  intros B NP. unfold tok_res, smiles_tok, clean_tok.
  exists (ptop (add_atom g ("["%char :: body ++ ["]"%char]))). split; [|split; [exact I|reflexivity]].
  change ("["%char :: body ++ ["]"%char]) with (["["%char] ++ body ++ ["]"%char]) at 1.
  rewrite prun_app. cbn [prun]. change (pstep (ptop g) "["%char) with (Ok (pmk (PBracket ["["%char]) g)). cbn [bind].
  rewrite prun_app, prun_bracket by assumption. cbn [bind prun].
  unfold pstep. cbn [p_mode pmk Ascii.eqb Bool.eqb]. cbn [bind].
  rewrite on_atom_pmk by assumption. rewrite <- app_assoc. reflexivity.
Qed.
Lemma t_bond ks g b g1 : q_pend g = None -> gstep ks g (TBond b) = Ok g1 -> tok_res ks g (TBond b) g1.
Proof.
  intros NP E. cbn in E. inversion E; subst g1; clear E. unfold tok_res, smiles_tok, clean_tok, render_tok, ptop.
  destruct b; (eexists; split; [cbn [prun]; unfold pstep, ptop_step; cbn; rewrite NP; reflexivity|split; [exact I|reflexivity]]).
Qed.
Lemma t_open ks g a g1 : q_cur g = Some a -> gstep ks g TOpen = Ok g1 -> tok_res ks g TOpen g1.
Proof.
  intros C E. cbn in E. inversion E; subst g1; clear E. unfold tok_res, smiles_tok, clean_tok, render_tok, ptop.
  eexists; split; [cbn [prun]; unfold pstep, ptop_step; cbn; rewrite C; reflexivity|split; [exact I|]].
  unfold pflush, pmk. cbn. rewrite C. reflexivity.
Qed.
Lemma t_close ks g a st g1 : q_stack g = a :: st -> gstep ks g TClose = Ok g1 -> tok_res ks g TClose g1.
Proof.
  intros C E. cbn in E. inversion E; subst g1; clear E. unfold tok_res, smiles_tok, clean_tok, render_tok, ptop.
  eexists; split; [cbn [prun]; unfold pstep, ptop_step; cbn; rewrite C; reflexivity|split; [exact I|]].
  unfold pflush, pmk. cbn. rewrite C. reflexivity.
Qed.
Lemma t_slash g f g1 : gstep true g (TSlash f) = Ok g1 -> tok_res true g (TSlash f) g1.
Proof.
  intros E. cbn in E. inversion E; subst g1; clear E. unfold tok_res, smiles_tok, ptop.
  destruct f; (eexists; split; [reflexivity|split; [exact I|reflexivity]]).
Qed.

(** ring-bond markers *)
Definition with_pend (g : gst) (b : bondstr) : gst :=
  {| q_atoms := q_atoms g; q_edges := q_edges g; q_cur := q_cur g; q_n := q_n g; q_pend := b;
     q_stack := q_stack g; q_open := q_open g; q_ez := q_ez g |}.
Lemma with_pend_same g : with_pend g (q_pend g) = g.
Proof. destruct g; reflexivity. Qed.
Lemma on_ring_spec g b z md :
  on_ring (pmk md (with_pend g b)) z = match add_ring g b z with Ok g1 => Ok (ptop g1) | Err e => Err e end.
Proof.
  unfold on_ring, add_ring, pmk, with_pend, ptop. cbn -[has_edge Nat.eqb].
  destruct (q_cur g) as [a|]; [|reflexivity].
  destruct (ring_get z (q_open g)) as [[j o]|]; [|reflexivity].
  unfold merge_bond. destruct b as [x|], o as [y|]; cbn -[has_edge Nat.eqb]; try destruct (Ascii.eqb x y); cbn -[has_edge Nat.eqb];
    try reflexivity; destruct (has_edge a j (q_edges g)); try reflexivity; destruct (Nat.eqb a j); reflexivity.
Qed.
Lemma digit_ptop_step p d : is_digit d = true -> p_mode p = PTop -> ptop_step p d = on_ring p (Z.of_nat (digit_val d)).
Proof.
  destruct d as [[] [] [] [] [] [] [] []]; intros H M; try discriminate H; reflexivity.
Qed.
Lemma digit_not_space d : is_digit d = true -> is_space d = false.
Proof. destruct d as [[] [] [] [] [] [] [] []]; intros H; try discriminate H; reflexivity. Qed.
Lemma digit_not_sign d : is_digit d = true -> Ascii.eqb d "-" = false /\ Ascii.eqb d "+" = false.
Proof. destruct d as [[] [] [] [] [] [] [] []]; intros H; try discriminate H; split; reflexivity. Qed.
Lemma py_int_two d1 d2 : is_digit d1 = true -> is_digit d2 = true -> py_int_text [d1; d2] = Ok (digits_val 0 [d1; d2]).
Proof.
  intros H1 H2. pose proof (digit_not_space d1 H1) as S1. pose proof (digit_not_space d2 H2) as S2.
  destruct (digit_not_sign d1 H1) as [N1 N2].
  unfold py_int_text.
  assert (D1 : drop_space [d1; d2] = [d1; d2]) by (cbn [drop_space]; rewrite S1; reflexivity).
  rewrite D1. cbn [rev app].
  assert (D2 : drop_space [d2; d1] = [d2; d1]) by (cbn [drop_space]; rewrite S2; reflexivity).
  rewrite D2. cbn [rev app]. rewrite N1, N2.
  unfold py_isdigit, all_digits. cbn [forallb]. rewrite H1, H2. reflexivity.
Qed.
Lemma marker_run g b z m (md : pmode) : marker_smiles_ok m = true -> marker_val m = z ->
  (p1 <- prun (pmk PTop (with_pend g b)) m ;; Ok p1) =
  match add_ring g b z with Ok g1 => Ok (ptop g1) | Err e => Err e end.
Proof.
  intros M V. subst z. destruct m as [|c [|d1 [|d2 [|x r]]]]; cbn in M; try discriminate M.
  - (* one digit *)
    cbn [prun]. change (pstep (pmk PTop (with_pend g b)) c) with (ptop_step (pmk PTop (with_pend g b)) c).
    rewrite digit_ptop_step by (assumption || reflexivity).
    change (marker_val [c]) with (Z.of_nat (digit_val c)). rewrite on_ring_spec.
    destruct (add_ring g b (Z.of_nat (digit_val c))); reflexivity.
  - (* %dd *)
    apply andb_prop in M. destruct M as [M M2]. apply andb_prop in M. destruct M as [Mp M1].
    unfold is_percent in Mp. apply Ascii.eqb_eq in Mp. subst c.
    cbn [prun]. change (pstep (pmk PTop (with_pend g b)) "%"%char) with (Ok (pmk PPct0 (with_pend g b))). cbn [bind].
    change (pstep (pmk PPct0 (with_pend g b)) d1) with (Ok (pmk (PPct1 d1) (with_pend g b))). cbn [bind].
    unfold pstep. cbn [p_mode pmk]. rewrite py_int_two by assumption. cbn [bind].
    change (pset_mode (pmk (PPct1 d1) (with_pend g b)) PTop) with (pmk PTop (with_pend g b)).
    change (marker_val ["%"%char; d1; d2]) with (digits_val 0 [d1; d2]). rewrite on_ring_spec.
    destruct (add_ring g b (digits_val 0 [d1; d2])); reflexivity.
Qed.
Lemma t_ring ks g b m : marker_smiles_ok m = true -> q_pend g = None ->
  match gstep ks g (TRing b m) with
  | Ok g1 => tok_res ks g (TRing b m) g1
  | Err e => prun (ptop g) (smiles_tok ks (TRing b m)) = Err e
  end.
Proof.
  intros M NP. cbn [gstep]. unfold tok_res, smiles_tok, clean_tok, render_tok.
  assert (R : prun (ptop g) (optb b ++ m) =
              match add_ring g (option_map bchar b) (marker_val m) with Ok g1 => Ok (ptop g1) | Err e => Err e end).
  { rewrite prun_app. destruct b as [b|]; cbn [optb option_map].
    - assert (S1 : prun (ptop g) [bchar b] = Ok (pmk PTop (with_pend g (Some (bchar b))))).
      { unfold ptop. destruct b; cbn [prun]; unfold pstep, ptop_step; cbn; rewrite NP; reflexivity. }
      rewrite S1. cbn [bind].
      pose proof (marker_run g (Some (bchar b)) (marker_val m) m PTop M eq_refl) as X.
      destruct (prun (pmk PTop (with_pend g (Some (bchar b)))) m); cbn [bind] in X; exact X.
    - cbn [prun bind]. pose proof (marker_run g None (marker_val m) m PTop M eq_refl) as X.
      rewrite <- NP, with_pend_same in X. unfold ptop. rewrite NP in X.
      destruct (prun (pmk PTop g) m); cbn [bind] in X; exact X. }
  rewrite R. destruct (add_ring g (option_map bchar b) (marker_val m)) as [g1|e]; [|reflexivity].
  eexists; split; [reflexivity|split; [exact I|reflexivity]].
Qed.

(** the first character of a token is never taken as the second letter of a two-letter atom *)
Lemma ringch_not_lr c : is_digit c = true \/ is_percent c = true -> char_in c lr = false.
Proof. destruct c as [[] [] [] [] [] [] [] []]; intros [H|H]; try discriminate H; reflexivity. Qed.
Lemma tok_first ks t : tok_smiles_ok t = true ->
  smiles_tok ks t = [] \/ exists c s, smiles_tok ks t = c :: s /\ char_in c lr = false.
Proof.
  destruct t as [e|body annot|b| | |b m|f|n]; cbn [tok_smiles_ok]; intros H.
  - right. unfold str_in, organic_atoms in H. cbn [existsb] in H.
    repeat (apply orb_prop in H; destruct H as [H|H]); try discriminate H;
      apply str_eqb_eq in H; subst e; (eexists; eexists; split; [reflexivity|reflexivity]).
  - right. eexists. eexists. split; reflexivity.
  - right. destruct b; (eexists; eexists; split; reflexivity).
  - right. eexists. eexists. split; reflexivity.
  - right. eexists. eexists. split; reflexivity.
  - right. destruct b as [b|].
    + destruct b; (eexists; eexists; split; reflexivity).
    + destruct m as [|c [|d1 [|d2 [|x r]]]]; cbn in H; try discriminate H.
      * exists c, []. split; [reflexivity|]. apply ringch_not_lr. left. assumption.
      * apply andb_prop in H. destruct H as [H _]. apply andb_prop in H. destruct H as [H _].
        exists c, [d1; d2]. split; [reflexivity|]. apply ringch_not_lr. right. assumption.
  - destruct ks; [right|left; reflexivity]. destruct f; (eexists; eexists; split; reflexivity).
  - discriminate H.
Qed.

Definition pwhole (p : pst) (s : pystr) : res pst := p' <- prun p s ;; pfinish p'.
Lemma pfinish_pend p : ppend p -> pfinish p = Ok (pflush p).
Proof. unfold ppend, pfinish, pflush. destruct (p_mode p); intros H; try contradiction; reflexivity. Qed.

Lemma padvance ks p g t r g1 :
  ppend p -> pflush p = ptop g -> tok_smiles_ok t = true -> smiles_tok ks t <> [] -> tok_res ks g t g1 ->
  exists p1, ppend p1 /\ pflush p1 = ptop g1 /\ pwhole p (render_smiles ks (t :: r)) = pwhole p1 (render_smiles ks r).
Proof.
  intros P F T NE [p1 [R [P1 F1]]]. exists p1. split; [assumption|]. split; [assumption|].
  destruct (tok_first ks t T) as [E|[c [s [E L]]]]; [contradiction|].
  unfold pwhole. cbn [render_smiles flat_map]. rewrite E in *.
  rewrite (penter p g c s _ P F L). rewrite R. reflexivity.
Qed.
Lemma padvance_err ks p g t r e :
  ppend p -> pflush p = ptop g -> tok_smiles_ok t = true -> smiles_tok ks t <> [] ->
  prun (ptop g) (smiles_tok ks t) = Err e -> pwhole p (render_smiles ks (t :: r)) = Err e.
Proof.
  intros P F T NE R.
  destruct (tok_first ks t T) as [E|[c [s [E L]]]]; [contradiction|].
  unfold pwhole. cbn [render_smiles flat_map]. rewrite E in *.
  rewrite (penter p g c s _ P F L). rewrite R. reflexivity.
Qed.

Definition pobs (p : pst) : base_obs := (p_atoms p, p_edges p, p_ez p).
Definition gobs (g : gst) : base_obs := (q_atoms g, q_edges g, q_ez g).

Ltac zne := let X := fresh in intros X; discriminate X.

Lemma pmain ks : forall toks z depth p g,
  ppend p -> pflush p = ptop g ->
  (z = ZStart -> q_cur g = None /\ q_pend g = None) -> (z <> ZStart -> exists a, q_cur g = Some a) ->
  (z <> ZBond -> q_pend g = None) -> length (q_stack g) = depth -> wf_toks z depth toks = true ->
  (p' <- pwhole p (render_smiles ks toks) ;; Ok (pobs p')) = (g' <- grun ks g toks ;; Ok (gobs g')).
Proof.
  induction toks as [|t r IH]; intros z depth p g P F ZS ZN ZC D W.
  - unfold pwhole. cbn. rewrite (pfinish_pend p P), F. reflexivity.
  - cbn [wf_toks] in W. apply andb_prop in W. destruct W as [Wt W].
    assert (NP : q_cur g = None -> q_pend g = None).
    { intros C. destruct z; try (apply ZC; discriminate); try (apply ZS; reflexivity).
      destruct (ZN ltac:(discriminate)) as [a Ha]. congruence. }
    destruct t as [e|body annot|b| | |b m|f|n].
    + (* atom *)
      destruct (padvance ks p g (TAtom e) r _ P F Wt ltac:(cbn; destruct e; [cbn in Wt; discriminate Wt|discriminate])
                  (t_atom ks g e Wt NP)) as [p1 [P1 [F1 E]]].
      rewrite E. cbn [grun gstep bind]. cbn [clean_tok render_tok].
      apply (IH ZAtom depth p1 _ P1 F1); try zne; auto.
      * intros _. eexists. reflexivity.
    + (* bracket atom *)
      destruct (padvance ks p g (TBracket body annot) r _ P F Wt ltac:(discriminate)
                  (t_bracket ks g body annot Wt NP)) as [p1 [P1 [F1 E]]].
      rewrite E. cbn [grun gstep bind].
      apply (IH ZAtom depth p1 _ P1 F1); try zne; auto.
      * intros _. eexists. reflexivity.
    + (* bond *)
      assert (ZZ : z <> ZStart /\ z <> ZBond) by (destruct z; try discriminate W; split; discriminate).
      destruct ZZ as [Z1 Z2]. pose proof (ZC Z2) as PN.
      destruct (padvance ks p g (TBond b) r _ P F Wt ltac:(destruct b; discriminate) (t_bond ks g b _ PN eq_refl))
        as [p1 [P1 [F1 E]]].
      rewrite E. cbn [grun gstep bind].
      destruct z; try discriminate W; apply (IH ZBond depth p1 _ P1 F1); try zne; auto;
        try (intros _; exact (ZN ltac:(discriminate))); intros X; exfalso; apply X; reflexivity.
    + (* open *)
      apply andb_prop in W. destruct W as [Wz W]. destruct z; try discriminate Wz.
      destruct (ZN ltac:(discriminate)) as [a Ha].
      destruct (padvance ks p g TOpen r _ P F Wt ltac:(discriminate) (t_open ks g a _ Ha eq_refl)) as [p1 [P1 [F1 E]]].
      rewrite E. cbn [grun gstep bind].
      apply (IH ZOpen (Datatypes.S depth) p1 _ P1 F1); try zne; auto;
        try (intros _; exists a; exact Ha); try (intros _; cbn; apply ZC; discriminate); cbn; rewrite Ha; cbn; rewrite D; reflexivity.
    + (* close *)
      apply andb_prop in W. destruct W as [Wz W]. destruct z; try discriminate Wz.
      destruct depth as [|dep]; [discriminate W|].
      destruct (q_stack g) as [|a st] eqn:Es; [discriminate D|].
      destruct (padvance ks p g TClose r _ P F Wt ltac:(discriminate) (t_close ks g a st _ Es eq_refl)) as [p1 [P1 [F1 E]]].
      rewrite E. cbn [grun gstep bind].
      apply (IH ZAtom dep p1 _ P1 F1); try zne; auto;
        try (intros _; cbn; rewrite Es; eexists; reflexivity); try (intros _; cbn; apply ZC; discriminate); cbn; rewrite Es; cbn; cbn in D; lia.
    + (* ring marker *)
      apply andb_prop in W. destruct W as [Wz W]. destruct z; try discriminate Wz.
      pose proof (ZC ltac:(discriminate)) as PN.
      destruct (ZN ltac:(discriminate)) as [a Ha].
      pose proof (t_ring ks g b m Wt PN) as TR.
      assert (NE : smiles_tok ks (TRing b m) <> []).
      { cbn. destruct b; [discriminate|]. destruct m; [cbn in Wt; discriminate Wt|discriminate]. }
      cbn [grun]. destruct (gstep ks g (TRing b m)) as [g1|e] eqn:Eg.
      * destruct (padvance ks p g (TRing b m) r g1 P F Wt NE TR) as [p1 [P1 [F1 E]]].
        rewrite E. cbn [bind].
        assert (K : q_cur g1 = Some a /\ q_pend g1 = None /\ q_stack g1 = q_stack g).
        { cbn in Eg. unfold add_ring in Eg. rewrite Ha in Eg.
          destruct (ring_get (marker_val m) (q_open g)) as [[j o]|].
          - destruct (merge_bond (option_map bchar b) o); cbn in Eg; [|discriminate Eg].
            destruct (has_edge a j (q_edges g)); [discriminate Eg|]. destruct (Nat.eqb a j); [discriminate Eg|].
            inversion Eg; subst g1; cbn; auto.
          - inversion Eg; subst g1; cbn; auto. }
        destruct K as [K1 [K2 K3]].
        apply (IH ZAtom depth p1 g1 P1 F1); try zne; auto.
        -- intros _. exists a. exact K1.
        -- rewrite K3. exact D.
      * cbn [bind]. rewrite (padvance_err ks p g (TRing b m) r e P F Wt NE TR). reflexivity.
    + (* slash *)
      assert (ZZ : z <> ZStart) by (destruct z; try discriminate W; discriminate).
      destruct ks.
      * destruct (padvance true p g (TSlash f) r _ P F Wt ltac:(destruct f; discriminate) (t_slash g f _ eq_refl))
          as [p1 [P1 [F1 E]]].
        rewrite E. cbn [grun gstep bind].
        destruct z; try discriminate W; apply (IH ZBond depth p1 _ P1 F1); try zne; auto;
          try (intros _; exact (ZN ltac:(discriminate))); intros X; exfalso; apply X; reflexivity.
      * cbn [render_smiles flat_map smiles_tok app grun gstep bind].
        destruct z; try discriminate W; apply (IH ZBond depth p g P F); try zne; auto;
          try (intros _; exact (ZN ltac:(discriminate))); intros X; exfalso; apply X; reflexivity.
    + discriminate Wt.
Qed.

(** ** the theorems *)
Theorem base_parse ks toks : wf_smiles toks = true ->
  base_smiles_parser (render_smiles ks toks) = graph_base ks toks.
Proof.
  intros W. unfold base_smiles_parser, graph_base.
  assert (H : (p' <- pwhole pinit (render_smiles ks toks) ;; Ok (pobs p')) = (g' <- grun ks ginit toks ;; Ok (gobs g'))).
  { apply (pmain ks toks ZStart 0 pinit ginit); auto.
    - exact I.
    - intros X; contradiction. }
  etransitivity; [|exact H]. unfold pwhole, pobs.
  destruct (prun pinit (render_smiles ks toks)); reflexivity.
Qed.
Theorem render_parse ks toks : wf_smiles toks = true ->
  smiles_parse (render_smiles ks toks) = graph_of ks toks.
Proof. intros W. unfold smiles_parse, graph_of. rewrite (base_parse ks toks W). reflexivity. Qed.

(** the documented bond orders are the ones the installed pysmiles uses *)
Lemma smiles_order_bchar b : smiles_bond_to_order_lookup [bchar b] = Ok (border b).
Proof. destruct b; reflexivity. Qed.
