(** SmilesIndex: the atom indices strip_bonding_descriptors reports are pysmiles' own indices.
    [parser_view] re-states what strip must return with every key taken from the STATE OF THE
    PARSER ([gst], the state [render_parse] shows pysmiles to be in on the clean text): a
    descriptor is keyed by the parser's current atom ([q_cur], the atom the next atom or ring bond
    would attach to; 0 before the first atom), an annotation by the parser's node counter ([q_n],
    the index the bracket atom gets as a node).  [index_agrees]: on every decorated fragment in
    both domains the strip machine returns exactly these dictionaries, and pysmiles, given the clean
    text the machine returns, builds the graph of the same parser run. *)
From Coq Require Import String.
From Coq Require Import List Ascii ZArith Bool Lia.
From CGV Require Import Base.PyBase Base.PyVal Dialect.DialectImpl Frag.NDict Frag.StripImpl Frag.FragText Frag.FragProofs
     Frag.SmilesParse Frag.SmilesSpec Frag.SmilesProofs.
Import ListNotations.

Definition add_descs (k : nat) (ds : list desc) (d : ndict (list pystr)) : ndict (list pystr) :=
  fold_left (fun acc x => nd_append k (desc_entry x) acc) ds d.
Definition cur_idx (g : gst) : nat := match q_cur g with Some a => a | None => 0 end.
Fixpoint xrun (fo : float_oracle) (g : gst) (d : ndict (list pystr)) (a : ndict attrs)
         (toks : list tok) (after : list (list desc)) : res (gst * ndict (list pystr) * ndict attrs) :=
  match toks with
  | [] => Ok (g, d, a)
  | t :: r =>
      g' <- gstep false g t ;;
      a' <- (match t with
             | TBracket _ annot =>
                 pa <- fragment_node_parser fo (match annot with Some x => x | None => [] end) ;;
                 Ok (nd_update (q_n g) pa a)
             | _ => Ok a
             end) ;;
      xrun fo g' (add_descs (cur_idx g') (hd [] after) d) a' r (tl after)
  end.
Definition parser_view (fo : float_oracle) (toks : list tok) (dc : decor) :=
  xrun fo ginit (add_descs 0 (d_lead dc) []) [] toks (d_after dc).

Lemma xrun_grun fo : forall toks after g d a g' d' a',
  xrun fo g d a toks after = Ok (g', d', a') -> grun false g toks = Ok g'.
Proof.
  induction toks as [|t r IH]; intros after g d a g' d' a' H; cbn in *.
  - inversion H. reflexivity.
  - destruct (gstep false g t) as [g1|e]; cbn in *; [|discriminate H].
    destruct (match t with TBracket _ annot => _ | _ => Ok a end) as [a1|e]; cbn in H; [|discriminate H].
    eapply IH. exact H.
Qed.

Lemma spec_run_app fo l1 : forall sp l2, spec_run fo sp (l1 ++ l2) = (sp' <- spec_run fo sp l1 ;; spec_run fo sp' l2).
Proof.
  induction l1 as [|i r IH]; intros sp l2; cbn; [reflexivity|].
  destruct (spec_item fo sp i); cbn; [apply IH|reflexivity].
Qed.
Definition with_desc (sp : sst) (d : ndict (list pystr)) : sst :=
  {| s_n := s_n sp; s_owner := s_owner sp; s_stack := s_stack sp; s_clean := s_clean sp; s_desc := d; s_ez := s_ez sp; s_ann := s_ann sp |}.
Lemma spec_run_descs fo (mkitem : desc -> ditem) : (forall sp d, spec_item fo sp (mkitem d) = Ok (spec_desc sp d)) ->
  forall ds sp, spec_run fo sp (map mkitem ds) = Ok (with_desc sp (add_descs (s_owner sp) ds (s_desc sp))).
Proof.
  intros M. induction ds as [|x r IH]; intros sp; cbn [map spec_run].
  - destruct sp; reflexivity.
  - rewrite M. cbn [bind]. rewrite IH. reflexivity.
Qed.

(** the two runs in lock step *)
Lemma sync fo : forall toks after z depth sp g sp' g' d' a',
  wf_toks z depth toks = true ->
  s_n sp = q_n g -> s_owner sp = cur_idx g -> s_stack sp = q_stack g ->
  (z <> ZStart -> exists a, q_cur g = Some a) ->
  spec_run fo sp (interleave toks after) = Ok sp' ->
  xrun fo g (s_desc sp) (s_ann sp) toks after = Ok (g', d', a') ->
  s_desc sp' = d' /\ s_ann sp' = a' /\ s_clean sp' = s_clean sp ++ render_smiles false toks /\ s_n sp' = q_n g'.
Proof.
  induction toks as [|t r IH]; intros after z depth sp g sp' g' d' a' W N O K ZN S X.
  - cbn in *. inversion S; inversion X; subst. rewrite app_nil_r. auto.
  - cbn [interleave] in S. change (ITok t :: map IDesc (hd [] after) ++ interleave r (tl after))
      with ([ITok t] ++ map IDesc (hd [] after) ++ interleave r (tl after)) in S.
    rewrite spec_run_app in S. cbn [spec_run spec_item] in S.
    destruct (spec_tok fo sp t) as [sp1|e] eqn:Et; cbn [bind] in S; [|discriminate S].
    rewrite spec_run_app, (spec_run_descs fo IDesc (fun _ _ => eq_refl)) in S. cbn [bind] in S.
    cbn [xrun] in X. destruct (gstep false g t) as [g1|e] eqn:Eg; cbn [bind] in X; [|discriminate X].
    cbn [wf_toks] in W. apply andb_prop in W. destruct W as [Wt W].
    (* per token: the new states are in step, and the annotation dictionaries agree *)
    assert (STEP : exists z1 depth1, wf_toks z1 depth1 r = true /\ s_n sp1 = q_n g1 /\ s_owner sp1 = cur_idx g1 /\
              s_stack sp1 = q_stack g1 /\ (exists a, q_cur g1 = Some a) /\ s_desc sp1 = s_desc sp /\
              s_clean sp1 = s_clean sp ++ smiles_tok false t /\
              (match t with
               | TBracket _ annot =>
                   pa <- fragment_node_parser fo (match annot with Some x => x | None => [] end) ;;
                   Ok (nd_update (q_n g) pa (s_ann sp))
               | _ => Ok (s_ann sp)
               end) = Ok (s_ann sp1)).
    { destruct t as [e|body annot|b| | |b m|f|n]; cbn in Et, Eg.
      - inversion Et; inversion Eg; subst; clear Et Eg. exists ZAtom, depth. cbn. rewrite N.
        repeat split; auto. eexists; reflexivity.
      - destruct (fragment_node_parser fo match annot with Some x => x | None => [] end) as [pa|e]; cbn in Et; [|discriminate Et].
        inversion Et; inversion Eg; subst; clear Et Eg. exists ZAtom, depth. cbn. rewrite N.
        repeat split; auto. eexists; reflexivity.
      - inversion Et; inversion Eg; subst; clear Et Eg.
        assert (ZZ : z <> ZStart) by (destruct z; try discriminate W; discriminate).
        exists ZBond, depth. cbn. repeat split; auto; destruct z; try discriminate W; auto.
      - inversion Et; inversion Eg; subst; clear Et Eg. apply andb_prop in W. destruct W as [Wz W].
        destruct z; try discriminate Wz. destruct (ZN ltac:(discriminate)) as [a0 Ha].
        exists ZOpen, (Datatypes.S depth). cbn. rewrite Ha. unfold cur_idx in O. rewrite Ha in O. rewrite O, K.
        repeat split; auto. exists a0; reflexivity.
      - inversion Et; inversion Eg; subst; clear Et Eg. apply andb_prop in W. destruct W as [Wz W].
        destruct z; try discriminate Wz. destruct depth as [|dep]; [discriminate W|].
        destruct (ZN ltac:(discriminate)) as [a0 Ha].
        exists ZAtom, dep. cbn. rewrite <- K. unfold cur_idx. cbn. unfold cur_idx in O. rewrite Ha in O.
        destruct (s_stack sp) as [|x st]; cbn; rewrite ?Ha; repeat split; auto; eexists; reflexivity.
      - inversion Et; subst; clear Et. apply andb_prop in W. destruct W as [Wz W]. destruct z; try discriminate Wz.
        destruct (ZN ltac:(discriminate)) as [a0 Ha].
        assert (KK : q_n g1 = q_n g /\ q_cur g1 = q_cur g /\ q_stack g1 = q_stack g).
        { unfold add_ring in Eg. rewrite Ha in Eg.
          destruct (ring_get (marker_val m) (q_open g)) as [[j o]|].
          - destruct (merge_bond (option_map bchar b) o); cbn in Eg; [|discriminate Eg].
            destruct (has_edge a0 j (q_edges g)); [discriminate Eg|]. destruct (Nat.eqb a0 j); [discriminate Eg|].
            inversion Eg; subst g1; cbn; auto.
          - inversion Eg; subst g1; cbn; auto. }
        destruct KK as [K1 [K2 K3]]. exists ZAtom, depth. cbn. unfold cur_idx. rewrite K1, K2, K3.
        repeat split; auto. exists a0; assumption.
      - inversion Et; inversion Eg; subst; clear Et Eg.
        assert (ZZ : z <> ZStart) by (destruct z; try discriminate W; discriminate).
        exists ZBond, depth. cbn. rewrite app_nil_r. repeat split; auto; destruct z; try discriminate W; auto.
      - discriminate Wt. }
    destruct STEP as [z1 [depth1 [W1 [N1 [O1 [K1 [C1 [D1 [CL1 A1]]]]]]]]].
    rewrite A1 in X. cbn [bind] in X.
    set (sp2 := with_desc sp1 (add_descs (s_owner sp1) (hd [] after) (s_desc sp1))) in *.
    assert (E2 : s_desc sp2 = add_descs (cur_idx g1) (hd [] after) (s_desc sp)) by (subst sp2; cbn; rewrite O1, D1; reflexivity).
    rewrite <- E2 in X. change (s_ann sp1) with (s_ann sp2) in X.
    destruct (IH (tl after) z1 depth1 sp2 g1 sp' g' d' a' W1 N1 O1 K1 (fun _ => C1) S X) as [R1 [R2 [R3 R4]]].
    repeat split; auto. rewrite R3. subst sp2. cbn [with_desc s_clean]. rewrite CL1, <- app_assoc. reflexivity.
Qed.

Theorem index_agrees fo toks dc clean d e a g d' a' :
  wf toks dc = true -> excluded toks dc = false -> wf_smiles toks = true ->
  strip_bonding_descriptors fo (render (decorate toks dc)) = Ok (clean, d, e, a) ->
  parser_view fo toks dc = Ok (g, d', a') ->
  d = d' /\ a = a' /\ clean = render_smiles false toks /\
  smiles_parse clean = interpret (q_atoms g, q_edges g, q_ez g).
Proof.
  intros W X WS HS HP. rewrite (strip_correct fo toks dc W X) in HS.
  unfold strip_spec, spec_items, decorate in HS. rewrite spec_run_app in HS.
  rewrite (spec_run_descs fo ILead (fun _ _ => eq_refl)) in HS. cbn [bind] in HS.
  set (sp0 := with_desc sinit (add_descs (s_owner sinit) (d_lead dc) (s_desc sinit))) in *.
  destruct (spec_run fo sp0 (interleave toks (d_after dc))) as [sp'|err] eqn:ES; cbn [bind] in HS; [|discriminate HS].
  inversion HS; subst clean d e a; clear HS.
  unfold parser_view in HP.
  destruct (sync fo toks (d_after dc) ZStart 0 sp0 ginit sp' g d' a' WS eq_refl eq_refl eq_refl
              ltac:(intros N; contradiction) ES HP) as [R1 [R2 [R3 R4]]].
  split; [assumption|]. split; [assumption|]. split; [rewrite R3; reflexivity|].
  rewrite R3. cbn [sp0 with_desc s_clean sinit app]. rewrite (render_parse false toks WS).
  unfold graph_of, graph_base. rewrite (xrun_grun fo _ _ _ _ _ _ _ _ HP). reflexivity.
Qed.
(** the graph's node i is the i-th atom token: its attributes are those of that token's text *)
Lemma grun_atoms ks : forall toks g g', grun ks g toks = Ok g' ->
  q_atoms g' = q_atoms g ++ flat_map (fun t => match t with TAtom _ | TBracket _ _ => [clean_tok t] | _ => [] end) toks
  /\ (q_n g = length (q_atoms g) -> q_n g' = length (q_atoms g')).
Proof.
  induction toks as [|t r IH]; intros g g' H; cbn in H.
  - inversion H. rewrite app_nil_r. auto.
  - destruct (gstep ks g t) as [g1|e] eqn:Eg; cbn in H; [|discriminate H].
    destruct (IH g1 g' H) as [A B].
    assert (S1 : q_atoms g1 = q_atoms g ++ match t with TAtom _ | TBracket _ _ => [clean_tok t] | _ => [] end
                 /\ (q_n g = length (q_atoms g) -> q_n g1 = length (q_atoms g1))).
    { destruct t as [e|body annot|b| | |b m|f|n]; cbn in Eg;
        try (inversion Eg; subst g1; cbn; rewrite ?app_nil_r, ?app_length; cbn; split; [reflexivity|intros L; lia]).
      - unfold add_ring in Eg. destruct (q_cur g); [|discriminate Eg].
        destruct (ring_get (marker_val m) (q_open g)) as [[j o]|].
        + destruct (merge_bond (option_map bchar b) o); cbn in Eg; [|discriminate Eg].
          destruct (has_edge n j (q_edges g)); [discriminate Eg|]. destruct (Nat.eqb n j); [discriminate Eg|].
          inversion Eg; subst g1; cbn. rewrite app_nil_r. auto.
        + inversion Eg; subst g1; cbn. rewrite app_nil_r. auto.
      - destruct ks; inversion Eg; subst g1; cbn; rewrite app_nil_r; auto. }
    destruct S1 as [S1 S2]. split.
    + rewrite A, S1. cbn [flat_map]. rewrite <- app_assoc. reflexivity.
    + intros L. apply B. apply S2. exact L.
Qed.

(** non-vacuity: the hypotheses of [index_agrees] hold together on [>]=C(/Cl)=1-[$a]C[NH3+]#[<]C1=[!2][$] *)
From CGV Require Import Frag.StripFacts.
Lemma index_example :
  wf nv_toks nv_dc = true /\ excluded nv_toks nv_dc = false /\ wf_smiles nv_toks = true /\
  (exists clean d e a, strip_bonding_descriptors fo0 (render (decorate nv_toks nv_dc)) = Ok (clean, d, e, a)) /\
  (exists g d' a', parser_view fo0 nv_toks nv_dc = Ok (g, d', a') /\ q_n g = 5 /\
     d' = [(0, [S ">2"; S "$a1"]); (3, [S "<3"]); (4, [S "!22"; S "$1"])]) /\
  (exists gr, graph_of false nv_toks = Ok gr /\ length (g_nodes gr) = 5 /\ length (g_edges gr) = 5).
Proof.
  split; [vm_compute; reflexivity|]. split; [vm_compute; reflexivity|]. split; [vm_compute; reflexivity|].
  split; [do 4 eexists; vm_compute; reflexivity|].
  split; [do 3 eexists; split; [vm_compute; reflexivity|split; reflexivity]|].
  eexists; split; [vm_compute; reflexivity|split; reflexivity].
Qed.
