(** SmilesPermX: branch order with a ring bond CROSSING a swapped branch (text level of C01).
    Extends SmilesPermR.v: of two adjacent branches on one atom, the first may leave ring bonds open
    that are closed later in the text (after both branches); the other branch closes every ring bond
    it opens and does not use the numbers the first leaves open.  Written in either order the graphs
    are equal up to the block permutation [swap_sigma] (or both parses fail).  For [ks = false]. *)
From Coq Require Import String.
From Coq Require Import List Ascii ZArith Bool Lia Permutation.
From CGV Require Import Base.PyBase Base.PyVal Gen.SmilesGen Frag.NDict Frag.FragText Frag.SmilesParse Frag.SmilesSpec
     Frag.SmilesProofs Frag.SmilesPerm Frag.SmilesPermR.
Import ListNotations.

(** summary of the local run of a branch that may leave ring bonds open *)
Record BlockOkX (g : gst) (c : nat) (p : list tok) (l' : gst) : Prop := {
  bx_run : grun false g p = Ok (rjoin g l');
  bx_keys : map fst (q_open l') = ring_trace [] p;
  bx_open : forall k j b, In (k, (j, b)) (q_open l') -> j < q_n l';
  bx_stack : q_stack l' = [];
  bx_pend : q_pend l' = None;
  bx_cur : q_cur l' = Some c;
  bx_n : q_n l' = q_n g + count_atoms p;
  bx_len : q_n l' = q_n g + length (q_atoms l');
  bx_edges : forall u v b, In (u, v, b) (q_edges l') -> u < q_n l' /\ v < q_n l';
  bx_shift : forall d, grun false (local0 c (q_n g + d)) p = Ok (rshift d (q_n g) l') }.
Lemma xblock_run g c p : is_rblock p = true -> fresh g p ->
  (forall u v b, In (u, v, b) (q_edges g) -> u < q_n g /\ v < q_n g) ->
  q_cur g = Some c -> q_pend g = None -> c < q_n g ->
  match grun false (local0 c (q_n g)) p with
  | Ok l' => BlockOkX g c p l'
  | Err e => grun false g p = Err e /\ forall d, grun false (local0 c (q_n g + d)) p = Err e
  end.
Proof.
  intros B FR GB C P L. destruct p as [|t r]; [discriminate B|]. destruct t; try discriminate B. cbn [is_rblock] in B.
  set (n := q_n g) in *.
  set (l1 := {| q_atoms := []; q_edges := []; q_cur := Some c; q_n := n; q_pend := None;
                q_stack := [c]; q_open := []; q_ez := [] |}).
  assert (LI : RInv n c ZOpen 1 [] l1).
  { constructor; cbn; auto.
    - intros u v b [].
    - exists c. split; [reflexivity|]. split; [exact L|]. intros _ X; discriminate X.
    - split; [reflexivity|]. split; [intros x [<-|[]]; exact L|]. intros _. exists []. split; [reflexivity|intros x []].
    - split; [reflexivity|intros k j b []]. }
  assert (FR' : fresh g r) by (intros b m IN; apply (FR b m); right; exact IN).
  pose proof (rblk_run g n c L GB r ZOpen 1 l1 [] B LI ltac:(lia) FR') as H. unfold Concl in H.
  assert (S0 : gstep false (local0 c n) TOpen = Ok l1) by reflexivity.
  assert (SJ : gstep false g TOpen = Ok (rjoin g l1)).
  { rewrite <- (rjoin_local0 g c C P) at 1. fold n. reflexivity. }
  assert (SS : forall d, gstep false (local0 c (n + d)) TOpen = Ok (rshift d n l1)).
  { intros d. cbn. unfold rshift, l1. cbn. rewrite sh_lt by exact L. reflexivity. }
  cbn [grun]. rewrite S0, SJ. cbn [bind].
  destruct (grun false l1 r) as [l'|e].
  - destruct H as [R2 [R3 [R4 [R5 R6]]]]. destruct R3 as [N1 E1 _ [K1 _] P1 [O1 OB1]].
    constructor.
    + change (grun false g (TOpen :: r)) with (g' <- gstep false g TOpen ;; grun false g' r). rewrite SJ. cbn [bind]. exact R2.
    + exact O1.
    + exact OB1.
    + destruct (q_stack l'); [reflexivity|discriminate K1].
    + apply P1. discriminate.
    + exact R4.
    + rewrite R5. rewrite (count_atoms_cons TOpen r). change (count_atoms [TOpen]) with 0. unfold l1. cbn. reflexivity.
    + exact N1.
    + exact E1.
    + intros d. cbn [grun]. rewrite SS. cbn [bind]. apply R6.
  - destruct H as [R2 R6]. split; [exact R2|]. intros d. cbn [grun]. rewrite SS. cbn [bind]. apply R6.
Qed.

(** the ring numbers a branch leaves open are not used by another branch *)
Definition avoids (p1 p2 : list tok) : Prop :=
  forall b m, In (TRing b m) p2 -> existsb (Z.eqb (marker_val m)) (ring_trace [] p1) = false.

(** a closed branch after an open one *)
Lemma local_after_open g c p1 l1 p2 : GInv g -> q_cur g = Some c -> q_pend g = None ->
  BlockOkX g c p1 l1 -> is_rblock p2 = true -> rings_local p2 = true -> fresh g p2 -> avoids p1 p2 ->
  match grun false (local0 c (q_n g)) p2 with
  | Ok l2 => grun false g (p1 ++ p2) = Ok (rjoin (rjoin g l1) (rshift (count_atoms p1) (q_n g) l2))
  | Err e => grun false g (p1 ++ p2) = Err e
  end.
Proof.
  intros GI C P [R1 KY1 OB1 K1 P1 C1 N1 L1 E1 S1] B2 RL2 F2 AV.
  pose proof (gi_cur g GI c C) as CN.
  assert (F2' : fresh (rjoin g l1) p2).
  { intros b m IN. unfold rjoin. cbn. rewrite (ring_get_app _ _ _ (F2 b m IN)). apply ring_get_keys. rewrite KY1. apply (AV b m IN). }
  assert (GB : forall u v b, In (u, v, b) (q_edges (rjoin g l1)) -> u < q_n (rjoin g l1) /\ v < q_n (rjoin g l1)).
  { intros u v b IN. unfold rjoin in *. cbn in *. apply in_app_or in IN. destruct IN as [IN|IN].
    - destruct (gi_edges g GI u v b IN). lia.
    - apply (E1 u v b IN). }
  pose proof (rblock_run (rjoin g l1) c p2 B2 RL2 F2' GB C1 P1 ltac:(unfold rjoin; cbn; lia)) as H.
  assert (QN : q_n (rjoin g l1) = q_n g + count_atoms p1) by (unfold rjoin; cbn; exact N1).
  rewrite QN in H.
  pose proof (rblock_run g c p2 B2 RL2 F2 (gi_edges g GI) C P CN) as H0.
  rewrite (grun_app_ok false g p1 p2 _ R1).
  destruct (grun false (local0 c (q_n g)) p2) as [l2|e].
  - destruct H0 as [_ _ _ _ _ _ _ _ SH]. rewrite (SH (count_atoms p1)) in H. destruct H as [R2 _ _ _ _ _ _ _ _]. exact R2.
  - destruct H0 as [_ SH]. rewrite (SH (count_atoms p1)) in H. destruct H as [R2 _]. exact R2.
Qed.
(** an open branch after a closed one *)
Lemma open_after_local g c p1 l1 p2 : GInv g -> q_cur g = Some c -> q_pend g = None ->
  BlockOk g c p1 l1 -> is_rblock p2 = true -> fresh g p2 ->
  match grun false (local0 c (q_n g)) p2 with
  | Ok l2 => grun false g (p1 ++ p2) = Ok (rjoin (rjoin g l1) (rshift (count_atoms p1) (q_n g) l2))
  | Err e => grun false g (p1 ++ p2) = Err e
  end.
Proof.
  intros GI C P [R1 O1 K1 P1 C1 N1 L1 E1 S1] B2 F2.
  pose proof (gi_cur g GI c C) as CN.
  assert (F2' : fresh (rjoin g l1) p2).
  { intros b m IN. unfold rjoin. cbn. rewrite O1, app_nil_r. apply (F2 b m IN). }
  assert (GB : forall u v b, In (u, v, b) (q_edges (rjoin g l1)) -> u < q_n (rjoin g l1) /\ v < q_n (rjoin g l1)).
  { intros u v b IN. unfold rjoin in *. cbn in *. apply in_app_or in IN. destruct IN as [IN|IN].
    - destruct (gi_edges g GI u v b IN). lia.
    - apply (E1 u v b IN). }
  pose proof (xblock_run (rjoin g l1) c p2 B2 F2' GB C1 P1 ltac:(unfold rjoin; cbn; lia)) as H.
  assert (QN : q_n (rjoin g l1) = q_n g + count_atoms p1) by (unfold rjoin; cbn; exact N1).
  rewrite QN in H.
  pose proof (xblock_run g c p2 B2 F2 (gi_edges g GI) C P CN) as H0.
  rewrite (grun_app_ok false g p1 p2 _ R1).
  destruct (grun false (local0 c (q_n g)) p2) as [l2|e].
  - destruct H0 as [_ _ _ _ _ _ _ _ _ SH]. rewrite (SH (count_atoms p1)) in H. destruct H as [R2 _ _ _ _ _ _ _ _ _]. exact R2.
  - destruct H0 as [_ SH]. rewrite (SH (count_atoms p1)) in H. destruct H as [R2 _]. exact R2.
Qed.

Lemma xswap_blocks g c pa pb : GInv g -> q_cur g = Some c -> q_pend g = None ->
  is_rblock pa = true -> is_rblock pb = true -> rings_local pb = true -> fresh g pa -> fresh g pb -> avoids pa pb ->
  match grun false g (pa ++ pb), grun false g (pb ++ pa) with
  | Ok gab, Ok gba => PSim (swap_sigma (q_n g) (count_atoms pa) (count_atoms pb)) gab gba /\
                      q_n gab = q_n g + count_atoms pa + count_atoms pb
  | Err e, Err e' => e = e'
  | _, _ => False
  end.
Proof.
  intros GI C P BA BB RB FA FB AV. pose proof (gi_cur g GI c C) as CN.
  pose proof (xblock_run g c pa BA FA (gi_edges g GI) C P CN) as HA.
  pose proof (rblock_run g c pb BB RB FB (gi_edges g GI) C P CN) as HB.
  set (n := q_n g) in *. set (a := count_atoms pa). set (b := count_atoms pb).
  destruct (grun false (local0 c n) pa) as [la|ea] eqn:ELA.
  - destruct (grun false (local0 c n) pb) as [lb|eb] eqn:ELB.
    + pose proof (local_after_open g c pa la pb GI C P HA BB RB FB AV) as R1. fold n in R1. rewrite ELB in R1. fold a in R1.
      pose proof (open_after_local g c pb lb pa GI C P HB BA FA) as R2. fold n in R2. rewrite ELA in R2. fold b in R2.
      rewrite R1, R2.
      destruct HA as [_ KYA OBA KA PA CA NA LA EA _]. destruct HB as [_ OB KB PB CB NB LB EB _].
      fold n in NA, LA, NB, LB. fold a in NA. fold b in NB.
      assert (LenA : length (q_atoms la) = a) by lia. assert (LenB : length (q_atoms lb) = b) by lia.
      split; [|cbn; lia].
      constructor; cbn [rjoin rshift q_atoms q_edges q_cur q_n q_pend q_stack q_open q_ez].
      * lia.
      * rewrite !app_length. rewrite (gi_len g GI). fold n. lia.
      * rewrite !app_length. rewrite (gi_len g GI). fold n. lia.
      * intros i L. unfold swap_sigma. pose proof (gi_len g GI) as GL. fold n in GL.
        destruct (Nat.ltb_spec i n).
        -- rewrite <- !app_assoc. rewrite !nth_error_app1 by lia. reflexivity.
        -- destruct (Nat.ltb_spec i (n + a)).
           ++ rewrite (nth_error_app1 (q_atoms g ++ q_atoms la)) by (rewrite app_length; lia).
              rewrite (nth_error_app2 (q_atoms g)) by lia.
              rewrite (nth_error_app2 (q_atoms g ++ q_atoms lb)) by (rewrite app_length; lia).
              rewrite app_length. f_equal. lia.
           ++ destruct (Nat.ltb_spec i (n + a + b)); [|lia].
              rewrite (nth_error_app2 (q_atoms g ++ q_atoms la)) by (rewrite app_length; lia).
              rewrite (nth_error_app1 (q_atoms g ++ q_atoms lb)) by (rewrite app_length; lia).
              rewrite (nth_error_app2 (q_atoms g)) by lia.
              rewrite app_length. f_equal. lia.
      * rewrite !map_app.
        rewrite (map_emap_id _ (q_edges g) n (gi_edges g GI)) by (intros x X; apply swap_sigma_lt; exact X).
        assert (EAsh : map (emap (swap_sigma n a b)) (q_edges la) = map (emap (sh b n)) (q_edges la)).
        { apply (map_emap_ext (swap_sigma n a b) (sh b n) (q_edges la) (n + a)).
          - intros u v b0 IN. pose proof (EA u v b0 IN). lia.
          - intros x X. unfold swap_sigma, sh. destruct (Nat.ltb_spec x n); [reflexivity|]. destruct (Nat.ltb_spec x (n + a)); lia. }
        rewrite EAsh.
        assert (EBid : map (emap (swap_sigma n a b)) (map (emap (sh a n)) (q_edges lb)) = q_edges lb).
        { rewrite map_map. rewrite <- (map_id (q_edges lb)) at 2. apply map_ext_in. intros [[u v] b0] IN. cbn.
          pose proof (EB u v b0 IN) as [U V].
          assert (Q : forall x, x < n + b -> swap_sigma n a b (sh a n x) = x).
          { intros x X. unfold swap_sigma, sh. destruct (Nat.ltb_spec x n).
            - destruct (Nat.ltb_spec x n); [reflexivity|lia].
            - destruct (Nat.ltb_spec (x + a) n); [lia|]. destruct (Nat.ltb_spec (x + a) (n + a)); [lia|].
              destruct (Nat.ltb_spec (x + a) (n + a + b)); lia. }
          rewrite (Q u), (Q v) by lia. reflexivity. }
        rewrite EBid. rewrite <- !app_assoc. apply Permutation_app_head. apply Permutation_app_comm.
      * rewrite CA, CB. cbn [option_map]. rewrite !sh_lt, swap_sigma_lt by lia. reflexivity.
      * rewrite KA, KB. cbn. symmetry. rewrite <- (map_id (q_stack g)) at 2. apply map_ext_in.
        intros x IN. pose proof (gi_stack g GI x IN). apply swap_sigma_lt. assumption.
      * rewrite OB. cbn [omap map app]. rewrite !app_nil_r. unfold omap. rewrite map_app. f_equal.
        -- rewrite <- (map_id (q_open g)) at 1. apply map_ext_in.
           intros [z [j b0]] IN. cbn. pose proof (gi_open g GI z j b0 IN). rewrite swap_sigma_lt by assumption. reflexivity.
        -- apply map_ext_in. intros [z [j b0]] IN. cbn. pose proof (OBA z j b0 IN) as JB. f_equal. f_equal.
           unfold swap_sigma, sh. destruct (Nat.ltb_spec j n); [reflexivity|]. destruct (Nat.ltb_spec j (n + a)); lia.
      * rewrite PA, PB. reflexivity.
      * reflexivity.
    + pose proof (local_after_open g c pa la pb GI C P HA BB RB FB AV) as R1. fold n in R1. rewrite ELB in R1.
      destruct HB as [RB0 _]. rewrite R1, (grun_app false pb g pa), RB0. reflexivity.
  - destruct HA as [RA0 SA].
    rewrite (grun_app false pa g pb), RA0. cbn [bind].
    destruct (grun false g (pb ++ pa)) as [gba|e'] eqn:E2.
    + rewrite (grun_app false pb g pa) in E2.
      destruct (grun false (local0 c n) pb) as [lb|eb] eqn:ELB.
      * pose proof (open_after_local g c pb lb pa GI C P HB BA FA) as R2. fold n in R2. rewrite ELA in R2.
        rewrite (grun_app false pb g pa) in R2. rewrite R2 in E2. discriminate E2.
      * destruct HB as [RB0 _]. rewrite RB0 in E2. discriminate E2.
    + rewrite (grun_err_value _ _ _ RA0). symmetry. apply (grun_err_value _ _ _ E2).
Qed.

Theorem xswap_branches_base x pa pb y g c :
  grun false ginit x = Ok g -> q_cur g = Some c -> q_pend g = None ->
  is_rblock pa = true -> is_rblock pb = true -> rings_local pb = true -> fresh g pa -> fresh g pb -> avoids pa pb ->
  let s := swap_sigma (q_n g) (count_atoms pa) (count_atoms pb) in
  match graph_base false (x ++ pa ++ pb ++ y), graph_base false (x ++ pb ++ pa ++ y) with
  | Ok b1, Ok b2 => exists n, base_perm s n b1 b2 /\ sigma_ok s n
  | Err e, Err e' => e = e'
  | _, _ => False
  end.
Proof.
  intros RX C P BA BB RB FA FB AV s. pose proof (grun_ginv false x ginit g ginit_inv RX) as GI.
  pose proof (xswap_blocks g c pa pb GI C P BA BB RB FA FB AV) as SW. fold s in SW.
  unfold graph_base. rewrite !(grun_app_ok false ginit x _ g RX). rewrite !app_assoc.
  rewrite (grun_app false (pa ++ pb) g y), (grun_app false (pb ++ pa) g y).
  destruct (grun false g (pa ++ pb)) as [gab|e1], (grun false g (pb ++ pa)) as [gba|e2]; cbn [bind]; try contradiction; [|exact SW].
  destruct SW as [PS NAB].
  assert (SO : sigma_ok s (q_n gab)) by (rewrite NAB; apply swap_sigma_ok).
  pose proof (grun_psim s y gab gba SO PS) as H.
  destruct (grun false gab y) as [g1|e], (grun false gba y) as [h1|e']; cbn [bind]; try contradiction; [|exact H].
  destruct H as [[N LG LH A E _ _ _ _ Z] SO1]. exists (q_n g1). split; [|exact SO1].
  unfold base_perm. repeat split; auto. lia.
Qed.
