(** FragTextW: the domain of C13 extended once more: the SMILES wildcard atom `*` written without
    brackets is an atom token ([tok_okx]; pysmiles' organic subset contains it, `[*]` is a bracket
    atom anyway; in strip_bonding_descriptors it is a character of the catch-all atom branch).
    [wfw_items] is [FragTextX.wfx_items] with [tok_okx] for [tok_ok]; [wfx_items] itself is left as it
    is (the writer component computes with it); every text of [wfx] is in [wfw].  No proofs of the
    machine here. *)
From Coq Require Import String.
From Coq Require Import List Ascii ZArith Bool.
From CGV Require Import Base.PyBase Base.PyVal Frag.NDict Frag.FragText Frag.FragTextX.
Import ListNotations.

Definition is_star_atom (t : tok) : bool := match t with TAtom e => str_eqb e (S "*") | _ => false end.
Definition tok_okx (t : tok) : bool := tok_ok t || is_star_atom t.
Fixpoint wfw_items (z : zone) (depth : nat) (items : list ditem) : bool :=
  match items with
  | [] => is_zatom z && Nat.eqb depth 0
  | ILead d :: r => match z with ZStart => desc_ok d && wfw_items ZStart depth r | _ => false end
  | IDesc d :: r => is_zatom z && desc_ok d && wfw_items ZAtom depth r
  | ITok t :: r =>
      tok_okx t &&
      match t with
      | TAtom _ | TBracket _ _ => wfw_items ZAtom depth r
      | TBond _ | TSlash _ => match z with ZAtom | ZOpen => wfw_items ZBond depth r | _ => false end
      | TOpen => branch_zone z && wfw_items ZOpen (Datatypes.S depth) r
      | TClose => is_zatom z && match depth with O => false | Datatypes.S d => wfw_items ZAtom d r end
      | TRing _ _ | TMult _ => is_zatom z && wfw_items ZAtom depth r
      end
  end.
Definition wfw (toks : list tok) (dc : decor) : bool :=
  Nat.leb (length (d_after dc)) (length toks) && wfw_items ZStart 0 (decorate toks dc).

Lemma wfx_items_wfw : forall items z depth, wfx_items z depth items = true -> wfw_items z depth items = true.
Proof.
  induction items as [|i r IH]; intros z depth H; [exact H|].
  destruct i as [d|t|d]; cbn [wfx_items wfw_items] in *.
  - destruct z; try discriminate H. apply andb_prop in H. destruct H as [H1 H2]. rewrite H1, (IH _ _ H2). reflexivity.
  - apply andb_prop in H. destruct H as [Ht H]. unfold tok_okx. rewrite Ht. cbn [andb orb].
    destruct t; try (apply IH; exact H).
    + destruct z; try discriminate H; apply IH; exact H.
    + apply andb_prop in H. destruct H as [Hz H]. rewrite Hz. cbn [andb]. apply IH. exact H.
    + apply andb_prop in H. destruct H as [Hz H]. rewrite Hz. cbn [andb]. destruct depth; [discriminate H|]. apply IH. exact H.
    + apply andb_prop in H. destruct H as [Hz H]. rewrite Hz. cbn [andb]. apply IH. exact H.
    + destruct z; try discriminate H; apply IH; exact H.
    + apply andb_prop in H. destruct H as [Hz H]. rewrite Hz. cbn [andb]. apply IH. exact H.
  - apply andb_prop in H. destruct H as [H H3]. rewrite H. cbn [andb]. apply IH. exact H3.
Qed.
Lemma wfx_wfw toks dc : wfx toks dc = true -> wfw toks dc = true.
Proof.
  unfold wfx, wfw. intros H. apply andb_prop in H. destruct H as [H1 H2]. rewrite H1. cbn [andb]. apply wfx_items_wfw. exact H2.
Qed.
