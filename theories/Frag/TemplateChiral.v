(** TemplateChiral: chirality marks in the final template (what TemplateFinal.v left out).  A bracket
    atom with a chirality mark (@, @@, @TH1, ...) gets `rs_isomer` = (mark, []) from parse_atom;
    read_smiles appends, for every ring bond in creation order, the partner atom to the list of a
    marked end; pysmiles' _mark_chiral_atoms (after fill_valence) replaces the value by the tuple of
    neighbours: first the ring-bond partners in that order, then the other bonded atoms by increasing
    index; an atom with hydrogens (hcount truthy) gets its own index inserted at position 1; the
    tuple must have four entries (else ValueError); for `@@` the last two are exchanged.
    add_explicit_hydrogens / remove_explicit_hydrogens replace the own index by the first added
    hydrogen and back.  read_fragment_smiles then lets an annotation `rs_isomer` overwrite it.
    The ring bonds are found in the edge list of the token graph: the k-th chain bond is the first
    bond whose second atom is k (every atom but the first is created together with its chain bond,
    '.' included); every other bond is a ring bond (anchor, opener).  No proofs here. *)
From Coq Require Import String.
From Coq Require Import List Ascii ZArith Bool.
From CGV Require Import Base.PyBase Base.PyVal Gen.SmilesGen Dialect.DialectImpl Frag.NDict Frag.StripImpl
     Frag.SmilesParse Frag.Template Frag.TemplateFinal.
Import ListNotations.

Fixpoint ring_scan (k : nat) (edges : list (nat * nat * pyval)) : list (nat * nat) :=
  match edges with
  | [] => []
  | (u, v, _) :: r => if Nat.eqb v k then ring_scan (Datatypes.S k) r else (u, v) :: ring_scan k r
  end.
Definition ring_partners (i : nat) (rb : list (nat * nat)) : list nat :=
  flat_map (fun ab => (if Nat.eqb (fst ab) i then [snd ab] else []) ++ (if Nat.eqb (snd ab) i then [fst ab] else [])) rb.
Definition adjacent (edges : list (nat * nat * pyval)) (i j : nat) : bool :=
  existsb (fun e => let '(u, v, _) := e in (Nat.eqb u i && Nat.eqb v j) || (Nat.eqb u j && Nat.eqb v i)) edges.
(** sorted(molecule[node]) *)
Definition bonded (n : nat) (edges : list (nat * nat * pyval)) (i : nat) : list nat :=
  filter (adjacent edges i) (seq 0 n).
Definition insert1 {A} (x : A) (l : list A) : list A := match l with [] => [x] | a :: r => a :: x :: r end.
Definition chiral_neighbours (n : nat) (edges : list (nat * nat * pyval)) (i : nat) (h : Z) : list nat :=
  let rings := ring_partners i (ring_scan 1 edges) in
  let nb := rings ++ filter (fun j => negb (existsb (Nat.eqb j) rings)) (bonded n edges i) in
  if Z.eqb h 0 then nb else insert1 i nb.
Definition chiral_tuple (n : nat) (edges : list (nat * nat * pyval)) (i : nat) (dir : pystr) (h : Z) : res (list nat) :=
  match chiral_neighbours n edges i h with
  | [a; b; c; d] => Ok (if str_eqb dir (S "@@") then [a; b; d; c] else [a; b; c; d])
  | _ => Err EValue
  end.
Definition tuple_val (l : list nat) : pyval := VTup (map (fun x => VInt (Z.of_nat x)) l).

(** node [i]: [base] = parse_atom's attributes, [a] = the node of TemplateFinal's template *)
Definition rs_node (n : nat) (edges : list (nat * nat * pyval)) (ann : ndict attrs) (i : nat) (base a : attrs) : res attrs :=
  match aget (S "rs_isomer") base with
  | None => Ok a
  | Some (VStr dir) =>
      h <- final_hcount edges i base ;;
      t <- chiral_tuple n edges i dir h ;;
      match (match nd_get i ann with Some an => aget (S "rs_isomer") an | None => None end) with
      | Some _ => Ok a                                   (* the annotation wins *)
      | None => Ok (aset (S "rs_isomer") (tuple_val t) a)
      end
  | Some _ => Err EType
  end.
Fixpoint rs_nodes (n : nat) (edges : list (nat * nat * pyval)) (ann : ndict attrs) (i : nat) (bases nodes : list attrs) : res (list attrs) :=
  match bases, nodes with
  | b :: br, a :: ar => x <- rs_node n edges ann i b a ;; xs <- rs_nodes n edges ann (Datatypes.S i) br ar ;; Ok (x :: xs)
  | _, _ => Ok nodes
  end.
Definition rs_pass (G : sgraph) (ann : ndict attrs) (T : tmpl) : res tmpl :=
  ns <- rs_nodes (length (g_nodes G)) (g_edges G) ann 0 (g_nodes G) (t_nodes T) ;;
  Ok {| t_nodes := ns; t_edges := t_edges T |}.
Definition final_assemble_rs (name : pystr) (G : sgraph) (d : ndict (list pystr)) (ez : ndict ascii) (ann : ndict attrs) : res tmpl :=
  T <- final_assemble name G d ez ann ;; rs_pass G ann T.
Definition fragment_template_final_rs (fo : float_oracle) (name : pystr) (frag_smile : pystr) : res tmpl :=
  '(clean, d, ez, a) <- strip_bonding_descriptors fo frag_smile ;;
  let smiles_str := if str_eqb clean (S "H") then S "[H]" else clean in
  G <- smiles_parse smiles_str ;;
  final_assemble_rs name G d ez a.
