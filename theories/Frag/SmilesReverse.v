(** SmilesReverse: start-atom choice for unbranched fragments (text level of C01).  A chain
    a0 b1 a1 ... bn an (atoms organic or in brackets, optional bond symbols, no branch, no ring
    marker) written from its other end, an bn ... b1 a0, denotes the same graph up to the
    reversal i -> n - i of the atom indices: same atoms at mirrored positions, same bonds with the
    same orders (as undirected bonds).  Both at the level of [graph_of] and, through [render_parse],
    for what pysmiles builds from the two texts. *)
From Coq Require Import String.
From Coq Require Import List Ascii ZArith Bool Lia.
From CGV Require Import Base.PyBase Base.PyVal Gen.SmilesGen Frag.NDict Frag.FragText Frag.SmilesParse Frag.SmilesSpec
     Frag.SmilesProofs Frag.SmilesPerm.
Import ListNotations.

Definition is_atomtok (t : tok) : bool := match t with TAtom _ | TBracket _ _ => true | _ => false end.
Definition link := (option bsym * tok)%type.          (* optional bond symbol, then an atom *)
Definition chain := (tok * list link)%type.
Definition link_toks (l : link) : list tok := match fst l with Some b => [TBond b; snd l] | None => [snd l] end.
Definition chain_toks (c : chain) : list tok := fst c :: flat_map link_toks (snd c).
Definition chain_ok (c : chain) : bool := is_atomtok (fst c) && forallb (fun l => is_atomtok (snd l)) (snd c).
Definition chain_atoms (c : chain) : list tok := fst c :: map snd (snd c).
Definition chain_bonds (c : chain) : list (option bsym) := map fst (snd c).
(** the same chain written from the other end *)
Definition rev_chain (c : chain) : chain :=
  match rev (chain_atoms c) with
  | h :: r => (h, combine (rev (chain_bonds c)) r)
  | [] => c
  end.

(** the graph of a chain, explicitly *)
Fixpoint chain_edges (start : nat) (bonds : list (option bsym)) : list (nat * nat * bondstr) :=
  match bonds with
  | [] => []
  | b :: r => (start, Datatypes.S start, option_map bchar b) :: chain_edges (Datatypes.S start) r
  end.
Lemma links_run : forall (ls : list link) g c,
  forallb (fun l => is_atomtok (snd l)) ls = true -> q_cur g = Some c -> c + 1 = q_n g -> q_pend g = None ->
  exists g', grun false g (flat_map link_toks ls) = Ok g' /\
    q_atoms g' = q_atoms g ++ map (fun l => clean_tok (snd l)) ls /\
    q_edges g' = q_edges g ++ chain_edges c (map fst ls) /\ q_ez g' = q_ez g.
Proof.
  induction ls as [|[b t] r IH]; intros g c A C N P.
  - exists g. cbn. rewrite !app_nil_r. auto.
  - cbn [forallb snd] in A. apply andb_prop in A. destruct A as [At Ar].
    set (g1 := add_atom (match b with Some x => {| q_atoms := q_atoms g; q_edges := q_edges g; q_cur := q_cur g; q_n := q_n g;
                    q_pend := Some (bchar x); q_stack := q_stack g; q_open := q_open g; q_ez := q_ez g |} | None => g end) (clean_tok t)).
    assert (R1 : grun false g (link_toks (b, t) ++ flat_map link_toks r) = grun false g1 (flat_map link_toks r)).
    { unfold link_toks. cbn [fst snd]. destruct b as [b|]; destruct t; try discriminate At; reflexivity. }
    assert (Q : q_cur g1 = Some (q_n g) /\ q_n g1 = Datatypes.S (q_n g) /\ q_pend g1 = None /\
                q_atoms g1 = q_atoms g ++ [clean_tok t] /\ q_edges g1 = q_edges g ++ [(c, q_n g, option_map bchar b)] /\ q_ez g1 = q_ez g).
    { unfold g1, add_atom. destruct b; cbn; rewrite C, ?P; repeat split; reflexivity. }
    destruct Q as [Q1 [Q2 [Q3 [Q4 [Q5 Q6]]]]].
    destruct (IH g1 (q_n g) Ar Q1 ltac:(lia) Q3) as [g' [R [A' [E' Z']]]].
    exists g'. cbn [flat_map]. rewrite R1. split; [exact R|]. split; [|split].
    + rewrite A', Q4. cbn [map snd]. rewrite <- app_assoc. reflexivity.
    + rewrite E', Q5. rewrite <- app_assoc. cbn [map fst chain_edges app]. rewrite <- N.
      replace (c + 1) with (Datatypes.S c) by lia. reflexivity.
    + rewrite Z'. exact Q6.
Qed.

Theorem chain_base c : chain_ok c = true ->
  graph_base false (chain_toks c) = Ok (map clean_tok (chain_atoms c), chain_edges 0 (chain_bonds c), []).
Proof.
  destruct c as [t0 ls]. unfold chain_ok, chain_toks, chain_atoms, chain_bonds, graph_base. cbn [fst snd]. intros H.
  apply andb_prop in H. destruct H as [H0 Hl].
  assert (S0 : gstep false ginit t0 = Ok (add_atom ginit (clean_tok t0))) by (destruct t0; try discriminate H0; reflexivity).
  cbn [grun]. rewrite S0. cbn [bind].
  destruct (links_run ls (add_atom ginit (clean_tok t0)) 0 Hl eq_refl eq_refl eq_refl) as [g' [R [A [E Z]]]].
  rewrite R. cbn [bind]. rewrite A, E, Z. cbn. rewrite map_map. reflexivity.
Qed.

(** reversal of atoms and bonds *)
Lemma combine_fst {A B} : forall (l : list A) (r : list B), length l = length r -> map fst (combine l r) = l.
Proof. induction l as [|a l IH]; intros [|b r] H; cbn in *; try discriminate; [reflexivity|]. f_equal. apply IH. lia. Qed.
Lemma combine_snd {A B} : forall (l : list A) (r : list B), length l = length r -> map snd (combine l r) = r.
Proof. induction l as [|a l IH]; intros [|b r] H; cbn in *; try discriminate; [reflexivity|]. f_equal. apply IH. lia. Qed.
Lemma rev_chain_parts c : chain_atoms (rev_chain c) = rev (chain_atoms c) /\ chain_bonds (rev_chain c) = rev (chain_bonds c).
Proof.
  unfold rev_chain. destruct (rev (chain_atoms c)) as [|h r] eqn:E.
  - exfalso. assert (L : length (rev (chain_atoms c)) = 0) by (rewrite E; reflexivity). rewrite rev_length in L. discriminate L.
  - assert (L : length (rev (chain_bonds c)) = length r).
    { assert (L1 : length (rev (chain_atoms c)) = Datatypes.S (length r)) by (rewrite E; reflexivity).
      rewrite rev_length in *. unfold chain_atoms, chain_bonds in *. cbn in L1. rewrite !map_length in *. lia. }
    split.
    + unfold chain_atoms at 1. cbn [fst snd]. rewrite (combine_snd _ _ L). reflexivity.
    + unfold chain_bonds at 1. cbn [fst snd]. rewrite (combine_fst _ _ L). reflexivity.
Qed.
Lemma rev_chain_ok c : chain_ok c = true -> chain_ok (rev_chain c) = true.
Proof.
  intros H. assert (A : forallb is_atomtok (chain_atoms c) = true).
  { unfold chain_ok in H. unfold chain_atoms. cbn [forallb]. apply andb_prop in H. destruct H as [H0 Hl]. rewrite H0. cbn.
    rewrite forallb_forall in *. intros t IN. apply in_map_iff in IN. destruct IN as [l [<- IN]]. apply Hl. exact IN. }
  destruct (rev_chain_parts c) as [PA _].
  assert (A' : forallb is_atomtok (chain_atoms (rev_chain c)) = true).
  { rewrite PA. rewrite forallb_forall in *. intros t IN. apply A. apply in_rev. exact IN. }
  unfold chain_ok. unfold chain_atoms in A'. cbn [forallb] in A'. apply andb_prop in A'. destruct A' as [A0 Al]. rewrite A0. cbn.
  rewrite forallb_forall in *. intros l IN. apply Al. apply in_map. exact IN.
Qed.

Lemma in_chain_edges bs : forall s u v o, In (u, v, o) (chain_edges s bs) <->
  exists i b, nth_error bs i = Some b /\ u = s + i /\ v = Datatypes.S (s + i) /\ o = option_map bchar b.
Proof.
  induction bs as [|b0 r IH]; intros s u v o; cbn [chain_edges].
  - split; [intros []|intros [i [b [N _]]]; destruct i; discriminate N].
  - split.
    + intros [H|H].
      * inversion H; subst. exists 0, b0. rewrite Nat.add_0_r. auto.
      * apply IH in H. destruct H as [i [b [N [-> [-> ->]]]]]. exists (Datatypes.S i), b. repeat split; auto; lia.
    + intros [[|i] [b [N [-> [-> ->]]]]]; cbn in N.
      * inversion N; subst. left. rewrite Nat.add_0_r. reflexivity.
      * right. apply IH. exists i, b. repeat split; auto; lia.
Qed.
Lemma nth_error_rev {A} (l : list A) i : i < length l -> nth_error (rev l) i = nth_error l (length l - 1 - i).
Proof.
  intros L. destruct (nth_error l (length l - 1 - i)) as [x|] eqn:E; [|apply nth_error_None in E; lia].
  rewrite (nth_error_nth' (rev l) x) by (rewrite rev_length; exact L). rewrite rev_nth by exact L.
  f_equal. replace (length l - Datatypes.S i) with (length l - 1 - i) by lia. apply nth_error_nth. exact E.
Qed.
Lemma chain_edges_rev bs u v o : In (u, v, o) (chain_edges 0 bs) ->
  In (length bs - v, length bs - u, o) (chain_edges 0 (rev bs)).
Proof.
  intros H. apply in_chain_edges in H. destruct H as [i [b [N [-> [-> ->]]]]]. cbn [Nat.add].
  assert (L : i < length bs) by (apply nth_error_Some; congruence).
  apply in_chain_edges. exists (length bs - 1 - i), b. split; [|repeat split; auto; cbn; lia].
  rewrite nth_error_rev by lia. rewrite <- N. f_equal. lia.
Qed.

(** through [interpret] *)
Lemma map_res_app {A B} (f : A -> res B) l1 : forall l2,
  map_res f (l1 ++ l2) = (r1 <- map_res f l1 ;; r2 <- map_res f l2 ;; Ok (r1 ++ r2)).
Proof.
  induction l1 as [|a l IH]; intros l2; cbn.
  - destruct (map_res f l2); reflexivity.
  - destruct (f a); cbn; [|reflexivity]. rewrite IH. destruct (map_res f l); cbn; [|reflexivity]. destruct (map_res f l2); reflexivity.
Qed.
Lemma map_res_rev_ok {A B} (f : A -> res B) : forall l r, map_res f l = Ok r -> map_res f (rev l) = Ok (rev r).
Proof.
  induction l as [|a l IH]; intros r H; cbn in H; [inversion H; reflexivity|].
  destruct (f a) as [y|e] eqn:Ea; cbn in H; [|discriminate H]. destruct (map_res f l) as [ys|e]; cbn in H; [|discriminate H].
  inversion H; subst r. cbn [rev]. rewrite map_res_app, (IH ys eq_refl). cbn. rewrite Ea. reflexivity.
Qed.
Lemma map_res_in1 {A B} (f : A -> res B) l r y : map_res f l = Ok r -> In y r -> exists x, In x l /\ f x = Ok y.
Proof.
  intros H IN. destruct (map_res_ok f l r H) as [L P]. apply In_nth_error in IN. destruct IN as [i Hi].
  destruct (nth_error l i) as [x|] eqn:Ex.
  - destruct (P i x Ex) as [y' [F N]]. exists x. split; [apply (nth_error_In _ _ Ex)|]. congruence.
  - apply nth_error_None in Ex. assert (i < length r) by (apply nth_error_Some; congruence). lia.
Qed.
Lemma map_res_in2 {A B} (f : A -> res B) l r x : map_res f l = Ok r -> In x l -> exists y, f x = Ok y /\ In y r.
Proof.
  intros H IN. destruct (map_res_ok f l r H) as [L P]. apply In_nth_error in IN. destruct IN as [i Hi].
  destruct (P i x Hi) as [y [F N]]. exists y. split; [exact F|apply (nth_error_In _ _ N)].
Qed.
Lemma node_aromatic_rev nodes n x : length nodes = Datatypes.S n -> x <= n ->
  node_aromatic (rev nodes) (n - x) = node_aromatic nodes x.
Proof.
  intros L X. unfold node_aromatic. rewrite nth_error_rev by lia. rewrite L. replace (Datatypes.S n - 1 - (n - x)) with x by lia. reflexivity.
Qed.
Lemma edges_rev_dir nodes bs es es' : length nodes = Datatypes.S (length bs) ->
  map_res (edge_order nodes) (chain_edges 0 bs) = Ok es ->
  map_res (edge_order (rev nodes)) (chain_edges 0 (rev bs)) = Ok es' ->
  forall u v o, In (u, v, o) es -> In (length bs - v, length bs - u, o) es'.
Proof.
  intros L E1 E2 u v o IN. destruct (map_res_in1 _ _ _ _ E1 IN) as [[[u0 v0] b] [I0 F0]].
  pose proof (chain_edges_rev bs u0 v0 b I0) as IR.
  destruct (map_res_in2 _ _ _ _ E2 IR) as [y [Fy Iy]].
  assert (BD : u0 <= length bs /\ v0 <= length bs).
  { apply in_chain_edges in I0. destruct I0 as [i [b' [N [-> [-> _]]]]]. assert (i < length bs) by (apply nth_error_Some; congruence). cbn. lia. }
  assert (Q : y = (length bs - v, length bs - u, o)).
  { unfold edge_order in F0, Fy. destruct b as [c|].
    - destruct (smiles_bond_to_order_lookup [c]); cbn in F0, Fy; inversion F0; subst; inversion Fy; reflexivity.
    - rewrite !(node_aromatic_rev nodes (length bs)) in Fy by (try exact L; lia).
      rewrite andb_comm in Fy. destruct (node_aromatic nodes u0 && node_aromatic nodes v0); inversion F0; subst; inversion Fy; reflexivity. }
  rewrite <- Q. exact Iy.
Qed.

Theorem chain_reverse c : chain_ok c = true ->
  let n := length (chain_bonds c) in
  match graph_of false (chain_toks c), graph_of false (chain_toks (rev_chain c)) with
  | Ok G, Ok H =>
      g_nodes H = rev (g_nodes G) /\ length (g_nodes G) = Datatypes.S n /\
      (forall u v o, In (u, v, o) (g_edges G) -> In (n - v, n - u, o) (g_edges H)) /\
      (forall u v o, In (u, v, o) (g_edges H) -> In (n - v, n - u, o) (g_edges G)) /\
      g_ez G = [] /\ g_ez H = []
  | Err e, Err e' => e = e'
  | _, _ => False
  end.
Proof.
  intros OK n. unfold graph_of. rewrite (chain_base c OK), (chain_base _ (rev_chain_ok c OK)). cbn [bind].
  destruct (rev_chain_parts c) as [PA PB]. rewrite PA, PB, map_rev. unfold interpret.
  set (atoms := map clean_tok (chain_atoms c)). set (bs := chain_bonds c).
  assert (LA : length atoms = Datatypes.S (length bs)).
  { unfold atoms, bs, chain_atoms, chain_bonds. cbn. rewrite !map_length. reflexivity. }
  destruct (map_res parse_atom atoms) as [nodes|e1] eqn:EN.
  - rewrite (map_res_rev_ok _ _ _ EN). cbn [bind].
    assert (LN : length nodes = Datatypes.S (length bs)) by (destruct (map_res_ok _ _ _ EN) as [X _]; lia).
    destruct (map_res (edge_order nodes) (chain_edges 0 bs)) as [es|x1] eqn:E1,
             (map_res (edge_order (rev nodes)) (chain_edges 0 (rev bs))) as [es'|x2] eqn:E2; cbn [bind].
    + cbn. split; [reflexivity|]. split; [exact LN|]. split; [apply (edges_rev_dir nodes bs es es' LN E1 E2)|]. split; [|auto].
      intros u v o IN.
      assert (E1' : map_res (edge_order (rev (rev nodes))) (chain_edges 0 (rev (rev bs))) = Ok es) by (rewrite !rev_involutive; exact E1).
      pose proof (edges_rev_dir (rev nodes) (rev bs) es' es ltac:(rewrite !rev_length; exact LN) E2 E1' u v o IN) as R.
      rewrite rev_length in R. exact R.
    + (* an edge order fails on one side only: impossible, the bond symbols are the same *)
      destruct (map_res_err _ _ _ E2) as [[[u v] b] [IN F]].
      assert (IN' : In (length bs - v, length bs - u, b) (chain_edges 0 bs)).
      { pose proof (chain_edges_rev (rev bs) u v b IN) as R. rewrite rev_involutive, rev_length in R. exact R. }
      destruct (map_res_in2 _ _ _ _ E1 IN') as [y [Fy _]]. unfold edge_order in F, Fy. destruct b as [ch|].
      * destruct (smiles_bond_to_order_lookup [ch]); cbn in F, Fy; discriminate.
      * destruct (node_aromatic (rev nodes) u && node_aromatic (rev nodes) v); discriminate F.
    + destruct (map_res_err _ _ _ E1) as [[[u v] b] [IN F]].
      pose proof (chain_edges_rev bs u v b IN) as IN'.
      destruct (map_res_in2 _ _ _ _ E2 IN') as [y [Fy _]]. unfold edge_order in F, Fy. destruct b as [ch|].
      * destruct (smiles_bond_to_order_lookup [ch]); cbn in F, Fy; discriminate.
      * destruct (node_aromatic nodes u && node_aromatic nodes v); discriminate F.
    + destruct (map_res_err _ _ _ E1) as [y [_ Ey]]. destruct (map_res_err _ _ _ E2) as [y' [_ Ey']].
      rewrite (edge_order_err _ _ _ Ey), (edge_order_err _ _ _ Ey'). reflexivity.
  - destruct (map_res parse_atom (rev atoms)) as [nodes'|e2] eqn:EN'; cbn [bind].
    + pose proof (map_res_rev_ok _ _ _ EN') as X. rewrite rev_involutive, EN in X. discriminate X.
    + destruct (map_res_err _ _ _ EN) as [y [_ Ey]]. destruct (map_res_err _ _ _ EN') as [y' [_ Ey']].
      rewrite (parse_atom_err _ _ Ey), (parse_atom_err _ _ Ey'). reflexivity.
Qed.

(** for the texts: what pysmiles builds from the two writings *)
Theorem chain_reverse_text c : chain_ok c = true ->
  wf_smiles (chain_toks c) = true -> wf_smiles (chain_toks (rev_chain c)) = true ->
  let n := length (chain_bonds c) in
  match smiles_parse (render_smiles false (chain_toks c)), smiles_parse (render_smiles false (chain_toks (rev_chain c))) with
  | Ok G, Ok H =>
      g_nodes H = rev (g_nodes G) /\ length (g_nodes G) = Datatypes.S n /\
      (forall u v o, In (u, v, o) (g_edges G) -> In (n - v, n - u, o) (g_edges H)) /\
      (forall u v o, In (u, v, o) (g_edges H) -> In (n - v, n - u, o) (g_edges G)) /\
      g_ez G = [] /\ g_ez H = []
  | Err e, Err e' => e = e'
  | _, _ => False
  end.
Proof. intros OK W1 W2. rewrite (render_parse false _ W1), (render_parse false _ W2). apply (chain_reverse c OK). Qed.

(** non-vacuity: C=CO[NH3+] and [NH3+]OC=C *)
Definition rv_chain : chain :=
  (TAtom (S "C"), [(Some BDouble, TAtom (S "C")); (None, TAtom (S "O")); (None, TBracket (S "NH3+") None)]).
Lemma reverse_example :
  chain_ok rv_chain = true /\
  to_string (render_smiles false (chain_toks rv_chain)) = "C=CO[NH3+]"%string /\
  to_string (render_smiles false (chain_toks (rev_chain rv_chain))) = "[NH3+]OC=C"%string /\
  wf_smiles (chain_toks rv_chain) = true /\ wf_smiles (chain_toks (rev_chain rv_chain)) = true /\
  exists G H, graph_of false (chain_toks rv_chain) = Ok G /\ graph_of false (chain_toks (rev_chain rv_chain)) = Ok H /\
    g_edges G = [(0, 1, VInt 2); (1, 2, VInt 1); (2, 3, VInt 1)] /\ g_edges H = [(0, 1, VInt 1); (1, 2, VInt 1); (2, 3, VInt 2)].
Proof.
  repeat (split; [vm_compute; reflexivity|]). eexists. eexists. split; [vm_compute; reflexivity|]. split; [vm_compute; reflexivity|].
  split; reflexivity.
Qed.
