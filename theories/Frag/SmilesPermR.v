(** SmilesPermR: branch order with ring-bond markers INSIDE the swapped branches (text level of
    C01).  Extends Part 2/3 of SmilesPerm.v: a branch "(" … ")" may contain ring-bond markers provided
    every ring bond it opens is closed inside it ([rings_local]) and its ring numbers are not open in
    the text before it ([fresh]).  Such a branch still acts locally ([rjoin]) and uniformly in the
    index offset ([rshift]); swapping two adjacent such branches on the same atom gives graphs equal
    up to the block permutation [swap_sigma] (or both parses fail).  For [ks = false]. *)
From Coq Require Import String.
From Coq Require Import List Ascii ZArith Bool Lia Permutation.
From CGV Require Import Base.PyBase Base.PyVal Gen.SmilesGen Frag.NDict Frag.FragText Frag.SmilesParse Frag.SmilesSpec
     Frag.SmilesProofs Frag.SmilesPerm.
Import ListNotations.

Fixpoint rblkz (z : zone) (depth : nat) (toks : list tok) : bool :=
  match toks with
  | [] => false
  | t :: r =>
      match t with
      | TAtom _ | TBracket _ _ => rblkz ZAtom depth r
      | TBond _ | TSlash _ => match z with ZAtom | ZOpen => rblkz ZBond depth r | _ => false end
      | TOpen => is_zatom z && rblkz ZOpen (Datatypes.S depth) r
      | TClose => is_zatom z && match depth with
                                | O => false
                                | 1 => match r with [] => true | _ => false end
                                | Datatypes.S d => rblkz ZAtom d r
                                end
      | TRing _ _ => is_zatom z && rblkz ZAtom depth r
      | TMult _ => false
      end
  end.
Definition is_rblock (p : list tok) : bool := match p with TOpen :: r => rblkz ZOpen 1 r | _ => false end.
(** the ring numbers open after reading the tokens *)
Definition toggle (s : list Z) (z : Z) : list Z :=
  if existsb (Z.eqb z) s then filter (fun k => negb (Z.eqb z k)) s else s ++ [z].
Fixpoint ring_trace (s : list Z) (toks : list tok) : list Z :=
  match toks with
  | [] => s
  | TRing _ m :: r => ring_trace (toggle s (marker_val m)) r
  | _ :: r => ring_trace s r
  end.
Definition rings_local (p : list tok) : bool := match ring_trace [] p with [] => true | _ => false end.
Definition fresh (g : gst) (p : list tok) : Prop :=
  forall b m, In (TRing b m) p -> ring_get (marker_val m) (q_open g) = None.

Definition rjoin (g l : gst) : gst :=
  {| q_atoms := q_atoms g ++ q_atoms l; q_edges := q_edges g ++ q_edges l; q_cur := q_cur l; q_n := q_n l;
     q_pend := q_pend l; q_stack := q_stack l ++ q_stack g; q_open := q_open g ++ q_open l; q_ez := q_ez g |}.
Definition rshift (d n : nat) (l : gst) : gst :=
  {| q_atoms := q_atoms l; q_edges := map (emap (sh d n)) (q_edges l); q_cur := option_map (sh d n) (q_cur l);
     q_n := q_n l + d; q_pend := q_pend l; q_stack := map (sh d n) (q_stack l); q_open := omap (sh d n) (q_open l); q_ez := q_ez l |}.

Record RInv (n0 c : nat) (z : zone) (depth : nat) (S : list Z) (l : gst) : Prop := {
  ri_n : q_n l = n0 + length (q_atoms l);
  ri_edges : forall u v b, In (u, v, b) (q_edges l) -> (u < q_n l /\ v < q_n l);
  ri_cur : exists a, q_cur l = Some a /\ a < q_n l /\ (depth > 0 -> z = ZAtom -> n0 <= a);
  ri_stack : length (q_stack l) = depth /\ (forall x, In x (q_stack l) -> x < q_n l) /\
             (depth > 0 -> exists st, q_stack l = st ++ [c] /\ forall x, In x st -> n0 <= x);
  ri_pend : z <> ZBond -> q_pend l = None;
  ri_open : map fst (q_open l) = S /\ forall k j b, In (k, (j, b)) (q_open l) -> j < q_n l }.

Lemma gstep_err_value g t e : gstep false g t = Err e -> e = EValue.
Proof.
  destruct t; cbn; try discriminate. unfold add_ring. destruct (q_cur g); [|intros H; inversion H; reflexivity].
  destruct (ring_get (marker_val marker) (q_open g)) as [[j o]|]; [|discriminate].
  unfold merge_bond. destruct (option_map bchar b), o; cbn; try destruct (Ascii.eqb a a0); cbn;
    try (intros H; inversion H; reflexivity);
    destruct (has_edge n j (q_edges g)); try (intros H; inversion H; reflexivity);
    destruct (Nat.eqb n j); intros H; inversion H; reflexivity.
Qed.
Lemma grun_err_value : forall toks g e, grun false g toks = Err e -> e = EValue.
Proof.
  induction toks as [|t r IH]; intros g e H; cbn in H; [discriminate H|].
  destruct (gstep false g t) as [g1|x] eqn:E; cbn in H; [apply (IH g1 e H)|]. inversion H; subst. apply (gstep_err_value g t e E).
Qed.

(** ring table of a joined state *)
Lemma ring_get_app z o1 o2 : ring_get z o1 = None -> ring_get z (o1 ++ o2) = ring_get z o2.
Proof. induction o1 as [|[k v] r IH]; cbn; [reflexivity|]. destruct (Z.eqb z k); [discriminate|exact IH]. Qed.
Lemma ring_del_app z o1 o2 : ring_get z o1 = None -> ring_del z (o1 ++ o2) = o1 ++ ring_del z o2.
Proof.
  unfold ring_del. induction o1 as [|[k v] r IH]; cbn; [reflexivity|]. destruct (Z.eqb z k); [discriminate|]. cbn. intros H. rewrite IH by exact H. reflexivity.
Qed.
Lemma has_edge_app a j (E1 E2 : list edge) : has_edge a j (E1 ++ E2) = has_edge a j E1 || has_edge a j E2.
Proof. unfold has_edge. apply existsb_app. Qed.
Lemma has_edge_low a j (E : list edge) n0 : (forall u v b, In (u, v, b) E -> u < n0 /\ v < n0) -> n0 <= a -> has_edge a j E = false.
Proof.
  intros B L. unfold has_edge. induction E as [|[[u v] b] r IH]; [reflexivity|]. cbn.
  destruct (B u v b (or_introl eq_refl)) as [U V]. rewrite IH by (intros u' v' b' IN; apply (B u' v' b'); right; exact IN).
  destruct (Nat.eqb_spec u a); [lia|]. destruct (Nat.eqb_spec v a); [lia|]. cbn. rewrite andb_false_r. reflexivity.
Qed.
Lemma ring_get_keys z o : ring_get z o = None <-> existsb (Z.eqb z) (map fst o) = false.
Proof.
  induction o as [|[k v] r IH]; cbn; [tauto|]. destruct (Z.eqb z k); cbn; [split; discriminate|exact IH].
Qed.
Lemma ring_del_keys z o : map fst (ring_del z o) = filter (fun k => negb (Z.eqb z k)) (map fst o).
Proof. unfold ring_del. induction o as [|[k v] r IH]; cbn; [reflexivity|]. destruct (Z.eqb z k); cbn; rewrite IH; reflexivity. Qed.
Lemma sh_inj d n x y : sh d n x = sh d n y -> x = y.
Proof. unfold sh. destruct (Nat.ltb_spec x n), (Nat.ltb_spec y n); lia. Qed.

Definition Concl (g : gst) (n0 c : nat) (l : gst) (toks : list tok) (S : list Z) : Prop :=
  match grun false l toks with
  | Ok l' => grun false (rjoin g l) toks = Ok (rjoin g l') /\ RInv n0 c ZAtom 0 (ring_trace S toks) l' /\
             q_cur l' = Some c /\ q_n l' = q_n l + count_atoms toks /\
             (forall d, grun false (rshift d n0 l) toks = Ok (rshift d n0 l'))
  | Err e => grun false (rjoin g l) toks = Err e /\ (forall d, grun false (rshift d n0 l) toks = Err e)
  end.
Lemma concl_step g n0 c l t r S l1 S1 :
  gstep false l t = Ok l1 -> gstep false (rjoin g l) t = Ok (rjoin g l1) ->
  (forall d, gstep false (rshift d n0 l) t = Ok (rshift d n0 l1)) ->
  q_n l1 = q_n l + count_atoms [t] -> ring_trace S (t :: r) = ring_trace S1 r ->
  Concl g n0 c l1 r S1 -> Concl g n0 c l (t :: r) S.
Proof.
  intros S1_ S2 S3 SN RT H. unfold Concl in *. cbn [grun]. rewrite S1_, S2. cbn [bind].
  destruct (grun false l1 r) as [l'|e].
  - destruct H as [R2 [R3 [R4 [R5 R6]]]]. split; [exact R2|]. split; [rewrite RT; exact R3|]. split; [exact R4|]. split.
    + rewrite R5, SN, (count_atoms_cons t r). lia.
    + intros d. rewrite S3. cbn [bind]. apply R6.
  - destruct H as [R2 R6]. split; [exact R2|]. intros d. rewrite S3. cbn [bind]. apply R6.
Qed.

Lemma rblk_run g n0 c : c < n0 -> (forall u v b, In (u, v, b) (q_edges g) -> u < n0 /\ v < n0) ->
  forall toks z depth l S,
  rblkz z depth toks = true -> RInv n0 c z depth S l -> depth > 0 -> fresh g toks ->
  Concl g n0 c l toks S.
Proof.
  intros CN GB. induction toks as [|t r IH]; intros z depth l S B LI DP FR; [discriminate B|].
  destruct LI as [LN LE [a [LC [LA LO]]] [LS1 [LS2 LS3]] LP [OK OB]].
  cbn [rblkz] in B.
  assert (FR' : fresh g r) by (intros b m IN; apply (FR b m); right; exact IN).
  assert (SHN : forall d, sh d n0 (q_n l) = q_n l + d) by (intros d; unfold sh; destruct (Nat.ltb_spec (q_n l) n0); lia).
  destruct t as [e|body annot|b| | |b m|fw|n]; try discriminate B.
  - (* atom *)
    apply (concl_step g n0 c l _ r S (add_atom l e) S); auto.
    + cbn. unfold rjoin, add_atom. cbn. rewrite LC. rewrite <- !app_assoc. reflexivity.
    + intros d. cbn. unfold rshift, add_atom. cbn. rewrite LC. cbn. rewrite map_app. cbn. rewrite SHN. reflexivity.
    + unfold count_atoms. cbn. lia.
    + apply (IH ZAtom depth); auto. constructor; cbn; rewrite ?LC.
      * rewrite app_length. cbn. lia.
      * intros u v b0 IN. apply in_app_or in IN. destruct IN as [IN|[IN|[]]]; [destruct (LE u v b0 IN); lia|inversion IN; subst; lia].
      * eexists. split; [reflexivity|]. split; [lia|intros; lia].
      * split; [exact LS1|]. split; [intros x IN; specialize (LS2 x IN); lia|exact LS3].
      * reflexivity.
      * split; [exact OK|]. intros k j b0 IN. specialize (OB k j b0 IN). lia.
  - apply (concl_step g n0 c l _ r S (add_atom l (clean_tok (TBracket body annot))) S); auto.
    + cbn. unfold rjoin, add_atom. cbn. rewrite LC. rewrite <- !app_assoc. reflexivity.
    + intros d. cbn. unfold rshift, add_atom. cbn. rewrite LC. cbn. rewrite map_app. cbn. rewrite SHN. reflexivity.
    + unfold count_atoms. cbn. lia.
    + apply (IH ZAtom depth); auto. constructor; cbn; rewrite ?LC.
      * rewrite app_length. cbn. lia.
      * intros u v b0 IN. apply in_app_or in IN. destruct IN as [IN|[IN|[]]]; [destruct (LE u v b0 IN); lia|inversion IN; subst; lia].
      * eexists. split; [reflexivity|]. split; [lia|intros; lia].
      * split; [exact LS1|]. split; [intros x IN; specialize (LS2 x IN); lia|exact LS3].
      * reflexivity.
      * split; [exact OK|]. intros k j b0 IN. specialize (OB k j b0 IN). lia.
  - (* bond *)
    assert (B' : rblkz ZBond depth r = true) by (destruct z; try discriminate B; exact B).
    eapply (concl_step g n0 c l _ r S _ S); [reflexivity|reflexivity|intros d; reflexivity|cbn; unfold count_atoms; cbn; lia|reflexivity|].
    apply (IH ZBond depth); auto. constructor; cbn; auto.
    + exists a. split; [exact LC|]. split; [exact LA|]. intros _ X; discriminate X.
    + intros X; exfalso; apply X; reflexivity.
  - (* open *)
    apply andb_prop in B. destruct B as [Bz B]. destruct z; try discriminate Bz.
    eapply (concl_step g n0 c l _ r S _ S); [reflexivity| |intros d| |reflexivity|].
    + cbn. unfold rjoin. cbn. rewrite LC. reflexivity.
    + cbn. unfold rshift. cbn. rewrite LC. cbn. reflexivity.
    + unfold count_atoms. cbn. lia.
    + apply (IH ZOpen (Datatypes.S depth)); auto; try lia. constructor; cbn; rewrite ?LC; auto.
      * exists a. split; [reflexivity|]. split; [exact LA|]. intros _ X; discriminate X.
      * split; [cbn; lia|]. split.
        -- intros x [<-|IN]; [exact LA|apply LS2; exact IN].
        -- intros _. destruct (LS3 DP) as [st [Hst Hlo]]. exists (a :: st). split; [rewrite Hst; reflexivity|].
           intros x [<-|IN]; [apply LO; [exact DP|reflexivity]|apply Hlo; exact IN].
      * intros _. apply LP. discriminate.
  - (* close *)
    apply andb_prop in B. destruct B as [Bz B]. destruct z; try discriminate Bz.
    destruct depth as [|[|d2]]; [discriminate B| |].
    + destruct r; [|discriminate B].
      destruct (LS3 DP) as [st [Hst Hlo]]. assert (st = []) by (destruct st as [|x [|y st]]; rewrite Hst in LS1; cbn in LS1;
        [reflexivity|discriminate LS1|rewrite app_length in LS1; cbn in LS1; lia]). subst st. cbn in Hst.
      unfold Concl. cbn [grun gstep bind ring_trace].
      split; [unfold rjoin; cbn; rewrite Hst; reflexivity|]. split; [|split; [|split]].
      * constructor; cbn; rewrite ?Hst; cbn; auto;
          try (exists c; split; [reflexivity|split; [lia|intros X; lia]]);
          try (split; [reflexivity|split; [intros x []|intros X; lia]]);
          try (intros _; apply LP; discriminate).
      * cbn. rewrite Hst. reflexivity.
      * unfold count_atoms. cbn. lia.
      * intros d. unfold rshift. cbn. rewrite Hst. cbn. rewrite sh_lt by exact CN. reflexivity.
    + destruct (LS3 DP) as [st [Hst Hlo]].
      destruct (q_stack l) as [|x rest] eqn:Es; [cbn in LS1; discriminate LS1|].
      eapply (concl_step g n0 c l _ r S _ S); [reflexivity| |intros d| |reflexivity|].
      * cbn. unfold rjoin. cbn. rewrite Es. reflexivity.
      * cbn. unfold rshift. cbn. rewrite Es. cbn. reflexivity.
      * unfold count_atoms. cbn. lia.
      * apply (IH ZAtom (Datatypes.S d2)); auto; try lia.
        destruct st as [|y st']; cbn in Hst; inversion Hst; subst; [cbn in LS1; discriminate LS1|].
        constructor; cbn; rewrite ?Es; cbn; auto;
          try (exists y; split; [reflexivity|]; split; [apply LS2; left; reflexivity|]; intros _ _; apply Hlo; left; reflexivity);
          try (intros _; apply LP; discriminate).
        split; [cbn in LS1; lia|]. split; [intros w IN; apply LS2; right; exact IN|].
        intros _. exists st'. split; [reflexivity|]. intros w IN. apply Hlo. right. exact IN.
  - (* ring-bond marker *)
    apply andb_prop in B. destruct B as [Bz B]. destruct z; try discriminate Bz.
    pose proof (LO DP eq_refl) as ALO. pose proof (LP ltac:(discriminate)) as PN.
    pose proof (FR b m (or_introl eq_refl)) as FG.
    set (zv := marker_val m) in *. set (ob := option_map bchar b).
    assert (STEPJ : gstep false (rjoin g l) (TRing b m) =
              match add_ring l ob zv with Ok l1 => Ok (rjoin g l1) | Err e => Err e end).
    { cbn [gstep]. fold zv ob. unfold add_ring, rjoin. cbn [q_atoms q_edges q_cur q_n q_pend q_stack q_open q_ez]. rewrite LC, (ring_get_app _ _ _ FG).
      destruct (ring_get zv (q_open l)) as [[j o]|]; [|rewrite <- ?app_assoc; reflexivity].
      destruct (merge_bond ob o) as [nb|e]; cbn [bind]; [|reflexivity].
      rewrite has_edge_app, (has_edge_low a j (q_edges g) n0 GB ALO). cbn [orb].
      destruct (has_edge a j (q_edges l)); [reflexivity|]. destruct (Nat.eqb a j); [reflexivity|].
      rewrite (ring_del_app _ _ _ FG), <- ?app_assoc. reflexivity. }
    assert (STEPS : forall d, gstep false (rshift d n0 l) (TRing b m) =
              match add_ring l ob zv with Ok l1 => Ok (rshift d n0 l1) | Err e => Err e end).
    { intros d. cbn [gstep]. fold zv ob. unfold add_ring, rshift. cbn [q_atoms q_edges q_cur q_n q_pend q_stack q_open q_ez]. rewrite LC. cbn [option_map]. rewrite ring_get_omap.
      destruct (ring_get zv (q_open l)) as [[j o]|]; cbn [option_map fst snd].
      - destruct (merge_bond ob o) as [nb|e]; cbn [bind]; [|reflexivity].
        rewrite (has_edge_map (sh d n0) a j (q_edges l) (sh_inj d n0)).
        destruct (has_edge a j (q_edges l)); [reflexivity|].
        assert (Q : Nat.eqb (sh d n0 a) (sh d n0 j) = Nat.eqb a j).
        { destruct (Nat.eqb_spec a j) as [->|NE]; [apply Nat.eqb_refl|].
          destruct (Nat.eqb_spec (sh d n0 a) (sh d n0 j)) as [E1|_]; [exfalso; apply NE, (sh_inj d n0), E1|reflexivity]. }
        rewrite Q. destruct (Nat.eqb a j); [reflexivity|]. cbn [q_atoms q_edges q_cur q_n q_pend q_stack q_open q_ez option_map]. rewrite map_app, ring_del_omap. reflexivity.
      - cbn [q_atoms q_edges q_cur q_n q_pend q_stack q_open q_ez option_map]. unfold omap. rewrite map_app. reflexivity. }
    unfold Concl. cbn [grun]. rewrite STEPJ. change (gstep false l (TRing b m)) with (add_ring l ob zv).
    assert (STEPS' := STEPS).
    destruct (add_ring l ob zv) as [l1|e] eqn:EA; cbn [bind].
    + (* the step succeeds: continue with the induction hypothesis *)
      assert (K : q_cur l1 = Some a /\ q_n l1 = q_n l /\ q_atoms l1 = q_atoms l /\ q_stack l1 = q_stack l /\ q_pend l1 = None /\
                  map fst (q_open l1) = toggle S zv /\ (forall k j b0, In (k, (j, b0)) (q_open l1) -> j < q_n l1) /\
                  (forall u v b0, In (u, v, b0) (q_edges l1) -> u < q_n l1 /\ v < q_n l1)).
      { unfold add_ring in EA. rewrite LC in EA. unfold toggle.
        destruct (ring_get zv (q_open l)) as [[j o]|] eqn:ER.
        - destruct (merge_bond ob o); cbn in EA; [|discriminate EA].
          destruct (has_edge a j (q_edges l)); [discriminate EA|]. destruct (Nat.eqb a j); [discriminate EA|].
          inversion EA; subst l1; clear EA. cbn.
          assert (EX : existsb (Z.eqb zv) S = true).
          { destruct (existsb (Z.eqb zv) S) eqn:X; [reflexivity|]. rewrite <- OK in X. apply ring_get_keys in X. congruence. }
          rewrite EX, ring_del_keys, OK.
          split; [reflexivity|]. split; [reflexivity|]. split; [reflexivity|]. split; [reflexivity|]. split; [reflexivity|].
          split; [reflexivity|]. split.
          + intros k j0 b0 IN. unfold ring_del in IN. apply filter_In in IN. destruct IN as [IN _]. apply (OB k j0 b0 IN).
          + intros u v b0 IN. apply in_app_or in IN. destruct IN as [IN|[IN|[]]]; [apply (LE u v b0 IN)|]. inversion IN; subst.
            split; [exact LA|]. apply (OB _ _ _ (ring_get_in _ _ _ _ ER)).
        - inversion EA; subst l1; clear EA. cbn.
          assert (EX : existsb (Z.eqb zv) S = false) by (rewrite <- OK; apply ring_get_keys; exact ER).
          rewrite EX, map_app, OK. cbn.
          split; [reflexivity|]. split; [reflexivity|]. split; [reflexivity|]. split; [reflexivity|]. split; [reflexivity|].
          split; [reflexivity|]. split; [|exact LE].
          intros k j0 b0 IN. apply in_app_or in IN. destruct IN as [IN|[IN|[]]]; [apply (OB k j0 b0 IN)|]. inversion IN; subst. exact LA. }
      destruct K as [K1 [K2 [K3 [K4 [K5 [K6 [K7 K8]]]]]]].
      assert (LI1 : RInv n0 c ZAtom depth (toggle S zv) l1).
      { constructor.
        - rewrite K2, K3. exact LN.
        - exact K8.
        - exists a. split; [exact K1|]. split; [rewrite K2; exact LA|]. intros _ _. exact ALO.
        - rewrite K4, K2. split; [exact LS1|]. split; [exact LS2|exact LS3].
        - intros _. exact K5.
        - split; [exact K6|exact K7]. }
      pose proof (IH ZAtom depth l1 (toggle S zv) B LI1 DP FR') as H. unfold Concl in H.
      destruct (grun false l1 r) as [l'|e'].
      * destruct H as [R2 [R3 [R4 [R5 R6]]]]. split; [exact R2|]. split; [exact R3|]. split; [exact R4|]. split.
        -- rewrite R5, K2. rewrite (count_atoms_cons (TRing b m) r). unfold count_atoms at 2. cbn. lia.
        -- intros d. cbn [grun]. rewrite (STEPS' d). cbn [bind]. apply R6.
      * destruct H as [R2 R6]. split; [exact R2|]. intros d. cbn [grun]. rewrite (STEPS' d). cbn [bind]. apply R6.
    + split; [reflexivity|]. intros d. cbn [grun]. rewrite (STEPS' d). reflexivity.
  - (* slash: nothing happens in the clean text *)
    assert (B' : rblkz ZBond depth r = true) by (destruct z; try discriminate B; exact B).
    eapply (concl_step g n0 c l _ r S l S); [reflexivity|reflexivity|intros d; reflexivity|cbn; unfold count_atoms; cbn; lia|reflexivity|].
    apply (IH ZBond depth); auto. constructor; auto;
      try (exists a; split; [exact LC|]; split; [exact LA|]; intros _ X; discriminate X);
      try (intros X; apply LP; destruct z; try discriminate B; discriminate).
Qed.

Lemma rjoin_local0 g c : q_cur g = Some c -> q_pend g = None -> rjoin g (local0 c (q_n g)) = g.
Proof. intros C P. destruct g; cbn in *; subst. unfold rjoin, local0. cbn. rewrite !app_nil_r. reflexivity. Qed.
Lemma ring_trace_open S r : ring_trace S (TOpen :: r) = ring_trace S r. Proof. reflexivity. Qed.

(** a whole branch read from a state whose current atom is [c]: summary of the local run *)
Record BlockOk (g : gst) (c : nat) (p : list tok) (l' : gst) : Prop := {
  bo_run : grun false g p = Ok (rjoin g l');
  bo_open : q_open l' = [];
  bo_stack : q_stack l' = [];
  bo_pend : q_pend l' = None;
  bo_cur : q_cur l' = Some c;
  bo_n : q_n l' = q_n g + count_atoms p;
  bo_len : q_n l' = q_n g + length (q_atoms l');
  bo_edges : forall u v b, In (u, v, b) (q_edges l') -> u < q_n l' /\ v < q_n l';
  bo_shift : forall d, grun false (local0 c (q_n g + d)) p = Ok (rshift d (q_n g) l') }.
Lemma rblock_run g c p : is_rblock p = true -> rings_local p = true -> fresh g p ->
  (forall u v b, In (u, v, b) (q_edges g) -> u < q_n g /\ v < q_n g) ->
  q_cur g = Some c -> q_pend g = None -> c < q_n g ->
  match grun false (local0 c (q_n g)) p with
  | Ok l' => BlockOk g c p l'
  | Err e => grun false g p = Err e /\ forall d, grun false (local0 c (q_n g + d)) p = Err e
  end.
Proof.
  intros B RL FR GB C P L. destruct p as [|t r]; [discriminate B|]. destruct t; try discriminate B. cbn [is_rblock] in B.
  set (n := q_n g) in *.
  set (l1 := {| q_atoms := []; q_edges := []; q_cur := Some c; q_n := n; q_pend := None;
                q_stack := [c]; q_open := []; q_ez := [] |}).
  assert (LI : RInv n c ZOpen 1 [] l1).
  { constructor; cbn; auto.
    - intros u v b [].
    - exists c. split; [reflexivity|]. split; [exact L|]. intros _ X; discriminate X.
    - split; [reflexivity|]. split; [intros x [<-|[]]; exact L|]. intros _. exists []. split; [reflexivity|intros x []].
    - split; [reflexivity|intros k j b []]. }
  assert (FR' : fresh g r) by (intros b m IN; apply (FR b m); right; exact IN).
  assert (RL' : match ring_trace [] r with [] => True | _ => False end).
  { unfold rings_local in RL. cbn [ring_trace] in RL. destruct (ring_trace [] r); [exact I|discriminate RL]. }
  pose proof (rblk_run g n c L GB r ZOpen 1 l1 [] B LI ltac:(lia) FR') as H. unfold Concl in H.
  assert (S0 : gstep false (local0 c n) TOpen = Ok l1) by reflexivity.
  assert (SJ : gstep false g TOpen = Ok (rjoin g l1)).
  { rewrite <- (rjoin_local0 g c C P) at 1. fold n. reflexivity. }
  assert (SS : forall d, gstep false (local0 c (n + d)) TOpen = Ok (rshift d n l1)).
  { intros d. cbn. unfold rshift, l1. cbn. rewrite sh_lt by exact L. reflexivity. }
  cbn [grun]. rewrite S0, SJ. cbn [bind].
  destruct (grun false l1 r) as [l'|e].
  - destruct H as [R2 [R3 [R4 [R5 R6]]]]. destruct R3 as [N1 E1 _ [K1 _] P1 [O1 _]].
    destruct (ring_trace [] r) eqn:ERT; [|contradiction].
    constructor.
    + change (grun false g (TOpen :: r)) with (g' <- gstep false g TOpen ;; grun false g' r). rewrite SJ. cbn [bind]. exact R2.
    + destruct (q_open l'); [reflexivity|discriminate O1].
    + destruct (q_stack l'); [reflexivity|discriminate K1].
    + apply P1. discriminate.
    + exact R4.
    + rewrite R5. rewrite (count_atoms_cons TOpen r). change (count_atoms [TOpen]) with 0. unfold l1. cbn. reflexivity.
    + exact N1.
    + exact E1.
    + intros d. cbn [grun]. rewrite SS. cbn [bind]. apply R6.
  - destruct H as [R2 R6]. split; [exact R2|]. intros d. cbn [grun]. rewrite SS. cbn [bind]. apply R6.
Qed.

(** running a second branch after a first one *)
Lemma second_block g c p1 l1 p2 : GInv g -> q_cur g = Some c -> q_pend g = None ->
  BlockOk g c p1 l1 -> is_rblock p2 = true -> rings_local p2 = true -> fresh g p2 ->
  match grun false (local0 c (q_n g)) p2 with
  | Ok l2 => grun false g (p1 ++ p2) = Ok (rjoin (rjoin g l1) (rshift (count_atoms p1) (q_n g) l2))
  | Err e => grun false g (p1 ++ p2) = Err e
  end.
Proof.
  intros GI C P [R1 O1 K1 P1 C1 N1 L1 E1 S1] B2 RL2 F2.
  pose proof (gi_cur g GI c C) as CN.
  assert (F2' : fresh (rjoin g l1) p2).
  { intros b m IN. unfold rjoin. cbn. rewrite O1, app_nil_r. apply (F2 b m IN). }
  assert (GB : forall u v b, In (u, v, b) (q_edges (rjoin g l1)) -> u < q_n (rjoin g l1) /\ v < q_n (rjoin g l1)).
  { intros u v b IN. unfold rjoin in *. cbn in *. apply in_app_or in IN. destruct IN as [IN|IN].
    - destruct (gi_edges g GI u v b IN). lia.
    - apply (E1 u v b IN). }
  pose proof (rblock_run (rjoin g l1) c p2 B2 RL2 F2' GB C1 P1 ltac:(unfold rjoin; cbn; lia)) as H.
  assert (QN : q_n (rjoin g l1) = q_n g + count_atoms p1) by (unfold rjoin; cbn; exact N1).
  rewrite QN in H.
  pose proof (rblock_run g c p2 B2 RL2 F2 (gi_edges g GI) C P CN) as H0.
  rewrite (grun_app_ok false g p1 p2 _ R1).
  destruct (grun false (local0 c (q_n g)) p2) as [l2|e].
  - destruct H0 as [_ _ _ _ _ _ _ _ SH]. rewrite (SH (count_atoms p1)) in H. destruct H as [R2 _ _ _ _ _ _ _ _]. exact R2.
  - destruct H0 as [_ SH]. rewrite (SH (count_atoms p1)) in H. destruct H as [R2 _]. exact R2.
Qed.

Lemma rswap_blocks g c pa pb : GInv g -> q_cur g = Some c -> q_pend g = None ->
  is_rblock pa = true -> is_rblock pb = true -> rings_local pa = true -> rings_local pb = true -> fresh g pa -> fresh g pb ->
  match grun false g (pa ++ pb), grun false g (pb ++ pa) with
  | Ok gab, Ok gba => PSim (swap_sigma (q_n g) (count_atoms pa) (count_atoms pb)) gab gba /\
                      q_n gab = q_n g + count_atoms pa + count_atoms pb
  | Err e, Err e' => e = e'
  | _, _ => False
  end.
Proof.
  intros GI C P BA BB RA RB FA FB. pose proof (gi_cur g GI c C) as CN.
  pose proof (rblock_run g c pa BA RA FA (gi_edges g GI) C P CN) as HA.
  pose proof (rblock_run g c pb BB RB FB (gi_edges g GI) C P CN) as HB.
  set (n := q_n g) in *. set (a := count_atoms pa). set (b := count_atoms pb).
  destruct (grun false (local0 c n) pa) as [la|ea] eqn:ELA.
  - destruct (grun false (local0 c n) pb) as [lb|eb] eqn:ELB.
    + (* both branches read fine *)
      pose proof (second_block g c pa la pb GI C P HA BB RB FB) as R1. fold n in R1. rewrite ELB in R1. fold a in R1.
      pose proof (second_block g c pb lb pa GI C P HB BA RA FA) as R2. fold n in R2. rewrite ELA in R2. fold b in R2.
      rewrite R1, R2.
      destruct HA as [_ OA KA PA CA NA LA EA _]. destruct HB as [_ OB KB PB CB NB LB EB _].
      fold n in NA, LA, NB, LB. fold a in NA. fold b in NB.
      assert (LenA : length (q_atoms la) = a) by lia. assert (LenB : length (q_atoms lb) = b) by lia.
      split; [|cbn; lia].
      constructor; cbn [rjoin rshift q_atoms q_edges q_cur q_n q_pend q_stack q_open q_ez].
      * lia.
      * rewrite !app_length. rewrite (gi_len g GI). fold n. lia.
      * rewrite !app_length. rewrite (gi_len g GI). fold n. lia.
      * intros i L. unfold swap_sigma. pose proof (gi_len g GI) as GL. fold n in GL.
        destruct (Nat.ltb_spec i n).
        -- rewrite <- !app_assoc. rewrite !nth_error_app1 by lia. reflexivity.
        -- destruct (Nat.ltb_spec i (n + a)).
           ++ rewrite (nth_error_app1 (q_atoms g ++ q_atoms la)) by (rewrite app_length; lia).
              rewrite (nth_error_app2 (q_atoms g)) by lia.
              rewrite (nth_error_app2 (q_atoms g ++ q_atoms lb)) by (rewrite app_length; lia).
              rewrite app_length. f_equal. lia.
           ++ destruct (Nat.ltb_spec i (n + a + b)); [|lia].
              rewrite (nth_error_app2 (q_atoms g ++ q_atoms la)) by (rewrite app_length; lia).
              rewrite (nth_error_app1 (q_atoms g ++ q_atoms lb)) by (rewrite app_length; lia).
              rewrite (nth_error_app2 (q_atoms g)) by lia.
              rewrite app_length. f_equal. lia.
      * rewrite !map_app.
        rewrite (map_emap_id _ (q_edges g) n (gi_edges g GI)) by (intros x X; apply swap_sigma_lt; exact X).
        assert (EAsh : map (emap (swap_sigma n a b)) (q_edges la) = map (emap (sh b n)) (q_edges la)).
        { apply (map_emap_ext (swap_sigma n a b) (sh b n) (q_edges la) (n + a)).
          - intros u v b0 IN. pose proof (EA u v b0 IN). lia.
          - intros x X. unfold swap_sigma, sh. destruct (Nat.ltb_spec x n); [reflexivity|]. destruct (Nat.ltb_spec x (n + a)); lia. }
        rewrite EAsh.
        assert (EBid : map (emap (swap_sigma n a b)) (map (emap (sh a n)) (q_edges lb)) = q_edges lb).
        { rewrite map_map. rewrite <- (map_id (q_edges lb)) at 2. apply map_ext_in. intros [[u v] b0] IN. cbn.
          pose proof (EB u v b0 IN) as [U V].
          assert (Q : forall x, x < n + b -> swap_sigma n a b (sh a n x) = x).
          { intros x X. unfold swap_sigma, sh. destruct (Nat.ltb_spec x n).
            - destruct (Nat.ltb_spec x n); [reflexivity|lia].
            - destruct (Nat.ltb_spec (x + a) n); [lia|]. destruct (Nat.ltb_spec (x + a) (n + a)); [lia|].
              destruct (Nat.ltb_spec (x + a) (n + a + b)); lia. }
          rewrite (Q u), (Q v) by lia. reflexivity. }
        rewrite EBid. rewrite <- !app_assoc. apply Permutation_app_head. apply Permutation_app_comm.
      * rewrite CA, CB. cbn [option_map]. rewrite !sh_lt, swap_sigma_lt by lia. reflexivity.
      * rewrite KA, KB. cbn. symmetry. rewrite <- (map_id (q_stack g)) at 2. apply map_ext_in.
        intros x IN. pose proof (gi_stack g GI x IN). apply swap_sigma_lt. assumption.
      * rewrite OA, OB. cbn. rewrite !app_nil_r. unfold omap. rewrite <- (map_id (q_open g)) at 1. apply map_ext_in.
        intros [z [j b0]] IN. cbn. pose proof (gi_open g GI z j b0 IN). rewrite swap_sigma_lt by assumption. reflexivity.
      * rewrite PA, PB. reflexivity.
      * reflexivity.
    + (* the second branch fails: on both sides *)
      pose proof (second_block g c pa la pb GI C P HA BB RB FB) as R1. fold n in R1. rewrite ELB in R1.
      destruct HB as [RB0 _]. rewrite R1, (grun_app false pb g pa), RB0. reflexivity.
  - destruct HA as [RA0 SA].
    rewrite (grun_app false pa g pb), RA0. cbn [bind].
    destruct (grun false g (pb ++ pa)) as [gba|e'] eqn:E2.
    + (* the other order cannot succeed *)
      rewrite (grun_app false pb g pa) in E2.
      destruct (grun false (local0 c n) pb) as [lb|eb] eqn:ELB.
      * pose proof (second_block g c pb lb pa GI C P HB BA RA FA) as R2. fold n in R2. rewrite ELA in R2.
        rewrite (grun_app false pb g pa) in R2. rewrite R2 in E2. discriminate E2.
      * destruct HB as [RB0 _]. rewrite RB0 in E2. discriminate E2.
    + rewrite (grun_err_value _ _ _ RA0). symmetry. apply (grun_err_value _ _ _ E2).
Qed.

Theorem swap_rbranches_base x pa pb y g c :
  grun false ginit x = Ok g -> q_cur g = Some c -> q_pend g = None ->
  is_rblock pa = true -> is_rblock pb = true -> rings_local pa = true -> rings_local pb = true -> fresh g pa -> fresh g pb ->
  let s := swap_sigma (q_n g) (count_atoms pa) (count_atoms pb) in
  match graph_base false (x ++ pa ++ pb ++ y), graph_base false (x ++ pb ++ pa ++ y) with
  | Ok b1, Ok b2 => exists n, base_perm s n b1 b2 /\ sigma_ok s n
  | Err e, Err e' => e = e'
  | _, _ => False
  end.
Proof.
  intros RX C P BA BB RA RB FA FB s. pose proof (grun_ginv false x ginit g ginit_inv RX) as GI.
  pose proof (rswap_blocks g c pa pb GI C P BA BB RA RB FA FB) as SW. fold s in SW.
  unfold graph_base. rewrite !(grun_app_ok false ginit x _ g RX). rewrite !app_assoc.
  rewrite (grun_app false (pa ++ pb) g y), (grun_app false (pb ++ pa) g y).
  destruct (grun false g (pa ++ pb)) as [gab|e1], (grun false g (pb ++ pa)) as [gba|e2]; cbn [bind]; try contradiction; [|exact SW].
  destruct SW as [PS NAB].
  assert (SO : sigma_ok s (q_n gab)) by (rewrite NAB; apply swap_sigma_ok).
  pose proof (grun_psim s y gab gba SO PS) as H.
  destruct (grun false gab y) as [g1|e], (grun false gba y) as [h1|e']; cbn [bind]; try contradiction; [|exact H].
  destruct H as [[N LG LH A E _ _ _ _ Z] SO1]. exists (q_n g1). split; [|exact SO1].
  unfold base_perm. repeat split; auto. lia.
Qed.

(** the graphs of  x (pa)(pb) y  and  x (pb)(pa) y , ring bonds inside the branches allowed *)
Theorem swap_rbranches x pa pb y g c :
  grun false ginit x = Ok g -> q_cur g = Some c -> q_pend g = None ->
  is_rblock pa = true -> is_rblock pb = true -> rings_local pa = true -> rings_local pb = true -> fresh g pa -> fresh g pb ->
  let s := swap_sigma (q_n g) (count_atoms pa) (count_atoms pb) in
  match graph_of false (x ++ pa ++ pb ++ y), graph_of false (x ++ pb ++ pa ++ y) with
  | Ok G, Ok H => exists n, graph_perm s n G H
  | Err e, Err e' => e = e'
  | _, _ => False
  end.
Proof.
  intros RX C P BA BB RA RB FA FB s.
  pose proof (swap_rbranches_base x pa pb y g c RX C P BA BB RA RB FA FB) as H. fold s in H.
  unfold graph_of.
  destruct (graph_base false (x ++ pa ++ pb ++ y)) as [b1|e1] eqn:E1,
           (graph_base false (x ++ pb ++ pa ++ y)) as [b2|e2] eqn:E2; cbn [bind]; try contradiction; [|exact H].
  destruct H as [n [BP SO]].
  assert (T : sigma_inv s (swap_sigma (q_n g) (count_atoms pb) (count_atoms pa)) n).
  { destruct SO as [I [B F]]. intros j J.
    set (m := q_n g + count_atoms pa + count_atoms pb).
    destruct (Nat.lt_ge_cases j m) as [JM|JM].
    - destruct (swap_sigma_inv (q_n g) (count_atoms pa) (count_atoms pb) j JM) as [T1 T2]. split; [|exact T2].
      destruct (Nat.lt_ge_cases m n); [fold m in T1; lia|].
      destruct (Nat.lt_ge_cases (swap_sigma (q_n g) (count_atoms pb) (count_atoms pa) j) n) as [X|X]; [exact X|].
      pose proof (F _ X) as FX. unfold s in FX. rewrite T2 in FX. lia.
    - assert (E : swap_sigma (q_n g) (count_atoms pb) (count_atoms pa) j = j).
      { unfold swap_sigma. fold m in JM. destruct (Nat.ltb_spec j (q_n g)); [lia|].
        destruct (Nat.ltb_spec j (q_n g + count_atoms pb)); [lia|].
        destruct (Nat.ltb_spec j (q_n g + count_atoms pb + count_atoms pa)); [lia|reflexivity]. }
      rewrite E. split; [exact J|]. unfold s, swap_sigma.
      destruct (Nat.ltb_spec j (q_n g)); [lia|]. destruct (Nat.ltb_spec j (q_n g + count_atoms pa)); [lia|].
      destruct (Nat.ltb_spec j (q_n g + count_atoms pa + count_atoms pb)); [lia|reflexivity]. }
  pose proof (interpret_perm s _ n b1 b2 BP SO T) as IP.
  destruct (interpret b1), (interpret b2); try contradiction; [exists n; exact IP|exact IP].
Qed.
Theorem swap_rbranches_text x pa pb y g c :
  wf_smiles (x ++ pa ++ pb ++ y) = true -> wf_smiles (x ++ pb ++ pa ++ y) = true ->
  grun false ginit x = Ok g -> q_cur g = Some c -> q_pend g = None ->
  is_rblock pa = true -> is_rblock pb = true -> rings_local pa = true -> rings_local pb = true -> fresh g pa -> fresh g pb ->
  let s := swap_sigma (q_n g) (count_atoms pa) (count_atoms pb) in
  match smiles_parse (render_smiles false (x ++ pa ++ pb ++ y)), smiles_parse (render_smiles false (x ++ pb ++ pa ++ y)) with
  | Ok G, Ok H => exists n, graph_perm s n G H
  | Err e, Err e' => e = e'
  | _, _ => False
  end.
Proof.
  intros W1 W2 RX C P BA BB RA RB FA FB. rewrite (render_parse false _ W1), (render_parse false _ W2).
  apply (swap_rbranches x pa pb y g c RX C P BA BB RA RB FA FB).
Qed.

(** non-vacuity: CC(c1ccccc1)(C1CC1)N and CC(C1CC1)(c1ccccc1)N — the same ring number in both branches *)
Definition c_ := TAtom (S "c").
Definition rs_x := [TAtom (S "C"); TAtom (S "C")].
Definition rs_pa := [TOpen; c_; TRing None (S "1"); c_; c_; c_; c_; c_; TRing None (S "1"); TClose].
Definition rs_pb := [TOpen; TAtom (S "C"); TRing None (S "1"); TAtom (S "C"); TAtom (S "C"); TRing None (S "1"); TClose].
Definition rs_y := [TAtom (S "N")].
Lemma rswap_example :
  to_string (render_smiles false (rs_x ++ rs_pa ++ rs_pb ++ rs_y)) = "CC(c1ccccc1)(C1CC1)N"%string /\
  to_string (render_smiles false (rs_x ++ rs_pb ++ rs_pa ++ rs_y)) = "CC(C1CC1)(c1ccccc1)N"%string /\
  wf_smiles (rs_x ++ rs_pa ++ rs_pb ++ rs_y) = true /\ wf_smiles (rs_x ++ rs_pb ++ rs_pa ++ rs_y) = true /\
  is_rblock rs_pa = true /\ is_rblock rs_pb = true /\ rings_local rs_pa = true /\ rings_local rs_pb = true /\
  (exists g, grun false ginit rs_x = Ok g /\ q_cur g = Some 1 /\ q_pend g = None /\ q_open g = []) /\
  (exists G H, graph_of false (rs_x ++ rs_pa ++ rs_pb ++ rs_y) = Ok G /\ graph_of false (rs_x ++ rs_pb ++ rs_pa ++ rs_y) = Ok H /\
     length (g_nodes G) = 12 /\ length (g_edges G) = 13 /\ G <> H).
Proof.
  repeat (split; [vm_compute; reflexivity|]). split.
  - eexists. split; [vm_compute; reflexivity|]. repeat split; reflexivity.
  - eexists. eexists. split; [vm_compute; reflexivity|]. split; [vm_compute; reflexivity|].
    split; [reflexivity|]. split; [reflexivity|discriminate].
Qed.
